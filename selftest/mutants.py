"""Small test-surviving edits (and negative controls) used to self-test the checks.  (file, old, new)"""
LW = "robotools/liquidhandling/labware.py"
BASE = "robotools/worklists/base.py"
WU = "robotools/worklists/utils.py"
EVW = "robotools/evotools/worklist.py"
FLW = "robotools/fluenttools/worklist.py"
EVC = "robotools/evotools/commands.py"
EVU = "robotools/evotools/utils.py"
FLU = "robotools/fluenttools/utils.py"
COMP = "robotools/liquidhandling/composition.py"
UT = "robotools/utils.py"

MUTANTS = [
    dict(id="dilution-floor-transfer", expect=["C14"], force=True, edits=[(UT, "                vtransfer = numpy.ceil(vmax_arr[c] * ideal_targets[:, c] / actual_targets[src_c])", "                vtransfer = numpy.floor(vmax_arr[c] * ideal_targets[:, c] / actual_targets[src_c])")]),
    dict(id="dilution-wrong-actual", expect=["C14"], force=True, edits=[(UT, "                    actual_targets.append(vtransfer * actual_targets[src_c] / vmax_arr[c])", "                    actual_targets.append(vtransfer * actual_targets[0] / vmax_arr[c])")]),
    dict(id="save-newline-lf", expect=["C17"], edits=[(BASE, 'with open(filepath, "w", newline="\\r\\n", encoding="latin_1") as file:', 'with open(filepath, "w", newline="\\n", encoding="latin_1") as file:')]),
    dict(id="save-utf8", expect=["C17"], edits=[(BASE, 'newline="\\r\\n", encoding="latin_1") as file:', 'newline="\\r\\n", encoding="utf-8") as file:')]),
    dict(id="save-no-unlink", expect=[], silent=["C17"], edits=[(BASE, "        filepath.unlink(missing_ok=True)\n", "")]),
    dict(id="save-rplus", expect=["C17"], edits=[(BASE, '        filepath.unlink(missing_ok=True)\n        with open(filepath, "w",', '        filepath.touch()\n        with open(filepath, "r+",')]),
    dict(id="init-all-above-max", expect=["C20"], edits=[(LW, "        if np.any(initial_volumes > max_volume):", "        if np.all(initial_volumes > max_volume):")]),
    dict(id="max-eq-min-accepted", expect=["C20"], edits=[(LW, "        if max_volume is None or not max_volume > min_volume:", "        if max_volume is None or not max_volume >= min_volume:")]),
    dict(id="troughwells-c-order", expect=["C19"], edits=[(UT, '    trough_wells = list(numpy.asarray(trough_wells).flatten("F"))', '    trough_wells = list(numpy.asarray(trough_wells).flatten())')]),
    dict(id="group-last-digit", expect=["C18"], edits=[(WU, "            group = s[1:]", "            group = s[2:]")]),
    dict(id="group-order-mod10", expect=["C18"], edits=[(WU, "column_groups = [column_groups_dd[col] for col in sorted(column_groups_dd.keys())]", "column_groups = [column_groups_dd[col] for col in sorted(column_groups_dd.keys(), key=lambda k: int(k) % 10)]")]),
    dict(id="dest-slice-1-3", expect=[], silent=["C18"], edits=[(WU, "            group = d[1:]", "            group = d[1:3]")]),
    dict(id="optimize-auto-always-source", expect=["C18"], force=True, edits=[(WU, "        if source.is_trough and not destination.is_trough:\n            partition_by = \"destination\"", "        if source.is_trough and not destination.is_trough and False:\n            partition_by = \"destination\"")]),
    dict(id="sel-gt-7", expect=["C12"], force=True, edits=[(EVC, "            if bit_counter > 6:", "            if bit_counter > 7:")]),
    dict(id="sel-plus-47", expect=["C12"], force=True, edits=[(EVC, "                selection += chr(bit_mask + 48)\n                bit_counter = 0", "                selection += chr(bit_mask + 47)\n                bit_counter = 0")]),
    dict(id="sel-full-group-zero", expect=["C12"], edits=[(EVC, "                selection += chr(bit_mask + 48)\n                bit_counter = 0", "                selection += chr((bit_mask if bit_mask != 127 else 0) + 48)\n                bit_counter = 0")]),
    dict(id="sel-rows-first", expect=["C12"], force=True, edits=[(EVC, "    for x in range(cols):\n        for y in range(rows):", "    for y in range(rows):\n        for x in range(cols):")]),
    dict(id="selarray-plus-equals", expect=["C12"], edits=[(EVC, "        selection_array[well_index_dict[well]] = 1", "        selection_array[well_index_dict[well]] += 1")]),
    dict(id="evo-trough-min-r-7", expect=["C08"], edits=[(EVU, "        return 1 + c * labware.virtual_rows + r", "        return 1 + c * labware.virtual_rows + min(r, 7)")]),
    dict(id="fluent-row-mod-8", expect=["C08"], edits=[(FLU, "    r = labware.row_ids.index(row)", "    r = labware.row_ids.index(row) % 8")]),
    dict(id="evo-nrows-for-troughs", expect=[], silent=["C08"], edits=[(EVU, "        return 1 + c * labware.virtual_rows + r", "        return 1 + c * labware.n_rows + r")]),
    dict(id="evo-row-major", expect=["C08", "C01"], force=True, edits=[(EVU, "    return 1 + c * labware.n_rows + r", "    return 1 + r * labware.n_columns + c")]),
    dict(id="tip-ge8-is-t8", expect=["C10"], force=True, edits=[("robotools/evotools/types.py", "    elif tip_int == 8:", "    elif tip_int >= 8:")]),
    dict(id="tipmask-sum-no-set", expect=["C10"], force=True, edits=[(WU, "        tip = sum(set(tips))", "        tip = sum(tips)")]),
    dict(id="evo-arm-2", expect=["C13"], count=2, force=True, edits=[(EVC, "    if not arm == 0 and not arm == 1:", "    if not arm == 0 and not arm == 1 and not arm == 2:")]),
    dict(id="evo-list-volume-unchecked", expect=["C13"], edits=[(EVC, """            if max_volume is not None and vol > max_volume:
                raise InvalidOperationError(f"Invalid volume: volume of {vol} exceeds max_volume.")""", """            if max_volume is not None and vol > max_volume and False:
                raise InvalidOperationError(f"Invalid volume: volume of {vol} exceeds max_volume.")""")]),
    dict(id="evo-track-vol0", expect=["C13"], edits=[(EVW, """        labware.remove(wells_calc, volumes_calc, label)""", """        labware.remove(wells_calc, np.repeat(volumes_calc[:1], len(wells_calc)), label)""")]),
    dict(id="evo-site-not-zero-based", expect=["C13"], force=True, edits=[(EVC, "    labware_position = (grid, site - 1)", "    labware_position = (grid, site)")]),
    dict(id="rack-type-33", expect=["C09"], edits=[(WU, 'if not isinstance(rack_type, str) or len(rack_type) > 32 or ";" in rack_type:', 'if not isinstance(rack_type, str) or len(rack_type) > 33 or ";" in rack_type:')]),
    dict(id="set-diti-after-wash", expect=["C09"], edits=[(BASE, 'if not (len(self) == 0 or self[-1][0] == "B"):', 'if not (len(self) == 0 or self[-1][0] in "BW"):')]),
    dict(id="comment-sep-first-line", expect=["C09"], edits=[(BASE, '        if ";" in comment:', '        if ";" in comment.split("\\n")[0]:')]),
    dict(id="decontaminate-diti-nonempty", expect=["C09"], edits=[(BASE, "        if self.diti_mode:\n            raise InvalidOperationError(\"Decontamination", "        if self.diti_mode and len(self) == 0:\n            raise InvalidOperationError(\"Decontamination")]),
    dict(id="volume-upper-bound-removed", expect=["C09"], edits=[(WU, "    if volume < 0 or volume > 7158278 or numpy.isnan(volume):", "    if volume < 0 or numpy.isnan(volume):")]),
    dict(id="lc-sep-first-32", expect=["C09"], edits=[(WU, '    if not isinstance(liquid_class, str) or ";" in liquid_class:', '    if not isinstance(liquid_class, str) or ";" in liquid_class[:32]:')]),
    dict(id="combine-drop-zero-amount", expect=["C05"], edits=[(COMP, "    new_composition = {k: v / (volume_A + volume_B) for k, v in volumetric_fractions.items()}", "    new_composition = {k: v / (volume_A + volume_B) for k, v in volumetric_fractions.items() if v > 0}")]),
    dict(id="fluent-dst-composition", expect=["C16", "C01"], edits=[(FLW, "                                compositions=[source.get_well_composition(s)],", "                                compositions=[destination.get_well_composition(d)],")]),
    dict(id="fluent-noop-rewrite", expect=[], silent=["C16"], edits=[(FLW, "                            nsteps += 1", "                            nsteps = nsteps + 1")]),
    dict(id="log-live-array", expect=["C11"], edits=[(LW, "        self._history.append(self.volumes)", "        self._history.append(self._volumes)")]),
    dict(id="volumes-live-array", expect=["C11"], edits=[(LW, "        return self._volumes.copy()", "        return self._volumes")]),
    dict(id="fluent-exec-zero-steps", expect=["C16", "C07"], edits=[(FLW, "                        if v > 0:", "                        if v >= 0:")]),
    dict(id="evo-kwargs-not-forwarded", expect=["C07"], edits=[(EVW, """                                compositions=[source.get_well_composition(s)],
                                **kwargs,
                            )""", """                                compositions=[source.get_well_composition(s)],
                            )""")]),
    dict(id="fluent-broadcast-vol0", expect=["C07"], edits=[(FLW, """        if len(volumes) == 1:
            volumes = np.repeat(volumes, nmax)
        lengths""", """        if len(volumes) != nmax:
            volumes = np.repeat(volumes[:1], nmax)
        lengths""")]),
    dict(id="evo-abs-negative", expect=["C07"], edits=[(EVW, """        if np.any(volumes < 0):
            raise ValueError("Volumes must be positive or zero.")
""", """        volumes = np.array([abs(v) for v in volumes])
""")]),
    dict(id="fluent-split-950", expect=["C06"], edits=[(FLW, "partition_volume(float(v), max_volume=self.max_volume) if self.auto_split else [v]", "partition_volume(float(v), max_volume=950) if self.auto_split else [v]")]),
    dict(id="multidisp-round", expect=["C06"], edits=[(BASE, "multi_disp = math.floor(self.max_volume / volume)", "multi_disp = round(self.max_volume / volume)")]),
    dict(id="partition-le", expect=[], silent=["C06"], edits=[(WU, "    if volume < max_volume:\n        return [volume]", "    if volume <= max_volume:\n        return [volume]")]),
    dict(id="add-vol-c-order", expect=["C04"], edits=[(LW, '''        volumes = np.array(volumes).flatten("F")
        if len(volumes) == 1:
            volumes = np.repeat(volumes, len(wells))
        assert len(volumes) == len(wells), "Number of volumes must equal the number of wells"''', '''        volumes = np.array(volumes).flatten()
        if len(volumes) == 1:
            volumes = np.repeat(volumes, len(wells))
        assert len(volumes) == len(wells), "Number of volumes must equal the number of wells"''')]),
    dict(id="remove-checks-zero", expect=["C02"], edits=[(LW, "            if v_new < self.min_volume:", "            if v_new < 0:")]),
    dict(id="add-write-before-check", expect=["C02"], edits=[(LW, '''            if v_new > self.max_volume:
                raise VolumeOverflowError(self.name, well, v_original, volume, self.max_volume, label)

            self._volumes[idx] = v_new
''', '''            self._volumes[idx] = v_new
            if v_new > self.max_volume:
                raise VolumeOverflowError(self.name, well, v_original, volume, self.max_volume, label)
''')]),
    dict(id="remove-at-min-rejected", expect=[], silent=["C02", "C04"], edits=[(LW, "            if v_new < self.min_volume:", "            if v_new <= self.min_volume:")]),
    dict(id="distribute-n-minus-1", expect=["C01"], edits=[(BASE, "source.remove(source.wells[0, source_column], volume * n_dst, label=label)", "source.remove(source.wells[0, source_column], volume * (n_dst - 1), label=label)")]),
    dict(id="aspirate-emit-before-remove", expect=["C03"], edits=[(BASE, '''        labware.remove(wells, volumes, label)
        n_records = len(self)
        try:
            self.comment(label)
            for well, volume in zip(wells, volumes):
                if volume > 0:
                    self.aspirate_well(labware.name, self._get_well_position(labware, well), volume, **kwargs)
        except Exception:
            # a call whose parameters are rejected leaves no records behind
            del self[n_records:]
            raise
        return''', '''        self.comment(label)
        for well, volume in zip(wells, volumes):
            if volume > 0:
                self.aspirate_well(labware.name, self._get_well_position(labware, well), volume, **kwargs)
        labware.remove(wells, volumes, label)
        return''')]),
]
