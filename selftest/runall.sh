#!/bin/sh
# run every registered quick (or $1) check sequentially and print one summary line each
cd "$(dirname "$0")/.."
tier=${1:-quick}
for id in $(python3 -c "import json; print(' '.join(c['property_id'] for c in json.load(open('MANIFEST.json'))['checks']))"); do
  out=$(./check $id --tier $tier 2>&1); code=$?
  echo "$id exit=$code :: $(echo "$out" | tail -1)"
  echo "$out" | grep -E "^(VIOLATION|HARNESS-ERROR|INCONCLUSIVE|KNOWN-FINDING)" | head -5
done
