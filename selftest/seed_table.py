"""print the markdown table of seeded changes (DESIGN.md 12.6) from seeded/*/meta.json"""
import glob
import json
import os

ROOT = os.path.dirname(os.path.dirname(os.path.abspath(__file__)))
word = {0: "silent", 1: "caught", 2: "inconclusive", 3: "harness error"}
rows = []
own = 0
for d in sorted(glob.glob(os.path.join(ROOT, "seeded", "*"))):
    m = json.load(open(os.path.join(d, "meta.json")))
    name = os.path.basename(d)
    det = m.get("detection", {})
    if det.get(m.get("property", name[:3]), {}).get("exit") == 1:
        own += 1
    cell = ", ".join(f"{k} {word.get(v['exit'], v['exit'])}" for k, v in det.items())
    rows.append(f"| `{name}` | {m.get('summary', '').replace('|', '/')[:175]} | {cell} |")
print("| seeded change | what it changes | final detection (quick tier) |\n|---|---|---|")
print("\n".join(rows))
print(f"\n<!-- {len(rows)} seeded changes, {own} caught by the check of their own property -->")
