"""Mutation self-test: apply small edits to a scratch copy of the repository (outside /repo and /verif), confirm that the
pinned test-suite still passes (a 'test-surviving' change), then run the property checks against the copy (VERIF_REPO).
Usage: python3 selftest/mutate.py [mutant-id ...]   (no ids: all).  Writes selftest/report.json."""
import json
import os
import shutil
import subprocess
import sys
import tempfile
import time

ROOT = os.path.dirname(os.path.dirname(os.path.abspath(__file__)))
sys.path.insert(0, os.path.join(ROOT, "selftest"))
from mutants import MUTANTS  # noqa: E402


def run(cmd, **kw):
    return subprocess.run(cmd, capture_output=True, text=True, **kw)


def main(ids):
    todo = [m for m in MUTANTS if not ids or m["id"] in ids]
    report = []
    for m in todo:
        d = tempfile.mkdtemp(prefix="robomut_")
        try:
            subprocess.run(f"cd /repo && git archive HEAD | tar -x -C {d}", shell=True, check=True)
            for f, old, new in m["edits"]:
                p = os.path.join(d, f)
                s = open(p).read()
                if s.count(old) != m.get("count", 1):
                    print(f"!! {m['id']}: pattern occurs {s.count(old)} times in {f} (mutant skipped: the source changed)")
                    raise LookupError(m["id"])
                open(p, "w").write(s.replace(old, new))
            t = run(["/venv/bin/python", "-m", "pytest", "-q", "-x", "-p", "no:cacheprovider"], cwd=d)
            survives = t.returncode == 0
            row = dict(id=m["id"], survives_tests=survives, expect=m["expect"], results={})
            if survives or m.get("force"):
                for pid in (m["expect"] or m.get("silent", [])) + [p for p in m.get("silent", []) if p not in m["expect"]]:
                    if pid in row["results"]:
                        continue
                    t0 = time.time()
                    r = run([os.path.join(ROOT, "check"), pid, "--tier", "quick"], env=dict(os.environ, VERIF_REPO=d), cwd=ROOT)
                    last = (r.stdout.strip().splitlines() or ["?"])[-1]
                    claims = sorted({ln.strip() for ln in r.stdout.splitlines() if ln.strip().startswith("claim:")})[:3]
                    row["results"][pid] = dict(exit=r.returncode, wall=round(time.time() - t0, 1), summary=last[-160:], claims=claims)
            ok = all(row["results"].get(p, {}).get("exit") == 1 for p in m["expect"]) and all(
                row["results"].get(p, {}).get("exit") == 0 for p in m.get("silent", []))
            row["as_expected"] = bool(ok and (survives or m.get("force")))
            report.append(row)
            print(json.dumps(row))
        except LookupError:
            report.append(dict(id=m["id"], skipped="pattern not found in the current source"))
        finally:
            shutil.rmtree(d, ignore_errors=True)
    out = os.path.join(ROOT, "selftest", "report.json")
    prev = []
    if os.path.exists(out) and ids:
        prev = [r for r in json.load(open(out)) if r["id"] not in {x["id"] for x in report}]
    json.dump(prev + report, open(out, "w"), indent=1)


if __name__ == "__main__":
    main(sys.argv[1:])
