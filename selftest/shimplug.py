"""pytest plugin (run under /venv/bin/python): substitute the numpy stand-in into every robotools module
and run the repository's own test-suite on it -- translator validation of the stand-in (DESIGN.md section 4)."""
import importlib
import os
import pkgutil
import sys

sys.path.insert(0, os.path.dirname(os.path.dirname(os.path.abspath(__file__))))
from symex import npshim  # noqa: E402

import numpy as _rnp  # noqa: E402


def _conv(x):
    return _rnp.asarray(x) if isinstance(x, npshim.ndarray) else x


for _name in ("assert_almost_equal", "assert_array_equal", "assert_allclose", "assert_array_almost_equal", "assert_equal"):
    _orig = getattr(_rnp.testing, _name)

    def _mk(orig):
        def f(a, b, *args, **kw):
            return orig(_conv(a), _conv(b), *args, **kw)

        return f

    setattr(_rnp.testing, _name, _mk(_orig))


def pytest_configure(config):
    import robotools

    n = 0
    for mi in pkgutil.walk_packages(robotools.__path__, "robotools."):
        if ".test_" in mi.name:
            continue
        m = importlib.import_module(mi.name)
        for nm in ("np", "numpy"):
            if hasattr(m, nm):
                setattr(m, nm, npshim)
                n += 1
    print("shimplug: patched", n, "module globals")
