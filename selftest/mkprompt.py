"""Write the prompt for a seed sub-agent and create its scratch worktree: python3 selftest/mkprompt.py <property id> <tag>  ->  /tmp/seed/<tag>(.prompt.txt)
The sub-agent gets only the property text, the ideas already used (seeded/*/meta.json summaries) and its own worktree."""
import json, glob, os, sys, subprocess
pid, tag = sys.argv[1], sys.argv[2]
props = {json.loads(l)["id"]: json.loads(l) for l in open("/verif/properties.jsonl")}
P = props[pid]
wt = f"/tmp/seed/{tag}"
prev = []
for d in sorted(glob.glob(f"/verif/seeded/{pid}-*")):
    m = json.load(open(d + "/meta.json"))
    prev.append("  - " + m.get("summary", "")[:240].replace("\n", " "))
tmpl = open("/verif/selftest/seed_prompt_template.txt").read()
head = tmpl.split("Here is a semantic property")[0].replace("C10c", tag)
mid = tmpl.split("YOUR TASK:")[1].split("Previous participants")[0].replace("C10c", tag)
tail = tmpl.split("Choose a SUBSTANTIALLY DIFFERENT change")[1].replace("C10c", tag).replace('"property": "C10"', f'"property": "{pid}"')
text = (head + "Here is a semantic property of the library that should hold:\n\n"
        f"TITLE: {P['title']}\nSTATEMENT: {P['statement']}\nQUANTIFIED OVER: {P['quantifier']['text']}\n\nYOUR TASK:" + mid
        + "Previous participants already used these ideas for this property:\n" + "\n".join(prev)
        + "\nChoose a SUBSTANTIALLY DIFFERENT change" + tail)
open(f"/tmp/seed/{tag}.prompt.txt", "w").write(text)
subprocess.run(["git", "-C", "/repo", "worktree", "add", "--detach", "-q", wt, "HEAD"], check=True)
print(tag, len(text))
