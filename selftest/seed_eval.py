"""Confirm a seeded breaking change written by an independent sub-agent and run the property checks against it.
usage: python3 selftest/seed_eval.py <name> <srcdir> [check ids...]    (srcdir holds patch.diff, demo.py, meta.json)
Everything happens on scratch copies outside /repo and /verif (removed afterwards); results go to seeded/<name>/meta.json."""
import json
import os
import shutil
import subprocess
import sys
import tempfile
import time

ROOT = os.path.dirname(os.path.dirname(os.path.abspath(__file__)))


def run(cmd, **kw):
    return subprocess.run(cmd, capture_output=True, text=True, **kw)


def main(name, src, checks):
    meta = json.load(open(os.path.join(src, "meta.json")))
    pid = meta.get("property", name[:3])
    checks = checks or [pid]
    base = tempfile.mkdtemp(prefix="seed_base_")
    mut = tempfile.mkdtemp(prefix="seed_mut_")
    try:
        for d in (base, mut):
            subprocess.run(f"cd /repo && git archive HEAD | tar -x -C {d}", shell=True, check=True)
            shutil.copy(os.path.join(src, "demo.py"), d)
        ap = run(["git", "apply", "--directory", ".", os.path.abspath(os.path.join(src, "patch.diff"))], cwd=mut)
        if ap.returncode != 0:
            ap = run(["patch", "-p1", "-i", os.path.abspath(os.path.join(src, "patch.diff"))], cwd=mut)
        conf = dict(patch_applies=ap.returncode == 0)
        t = run(["/venv/bin/python", "-m", "pytest", "-q", "-p", "no:cacheprovider"], cwd=mut)
        conf["suite_passes_with_change"] = t.returncode == 0
        conf["suite_tail"] = (t.stdout.strip().splitlines() or ["?"])[-1]
        d0 = run(["/venv/bin/python", "demo.py"], cwd=base)
        d1 = run(["/venv/bin/python", "demo.py"], cwd=mut)
        conf["demo_passes_without_change"] = d0.returncode == 0
        conf["demo_fails_with_change"] = d1.returncode != 0
        conf["demo_output_with_change"] = (d1.stdout + d1.stderr).strip()[-400:]
        conf["confirmed"] = all(conf[k] for k in ("patch_applies", "suite_passes_with_change", "demo_passes_without_change", "demo_fails_with_change"))
        det = {}
        if conf["confirmed"]:
            for c in checks:
                t0 = time.time()
                r = run([os.path.join(ROOT, "check"), c, "--tier", "quick"], env=dict(os.environ, VERIF_REPO=mut), cwd=ROOT)
                claims = sorted({ln.strip() for ln in r.stdout.splitlines() if ln.strip().startswith(("claim:", "refuted x"))})[:6]
                det[c] = dict(exit=r.returncode, wall_s=round(time.time() - t0, 1), summary=(r.stdout.strip().splitlines() or ["?"])[-1][-200:], claims=claims)
        out = os.path.join(ROOT, "seeded", name)
        os.makedirs(out, exist_ok=True)
        for f in ("patch.diff", "demo.py"):
            if os.path.abspath(os.path.join(src, f)) != os.path.abspath(os.path.join(out, f)):
                shutil.copy(os.path.join(src, f), out)
        meta.update(confirmation=conf, detection=det, ran=["pinned suite on a scratch copy with the patch", "demo.py with and without the patch",
                                                           "./check <id> --tier quick with VERIF_REPO=<scratch copy with the patch> (equivalent to git -C /repo apply; /repo itself is left untouched while background runs use it)"],
                    base_commit=run(["git", "-C", "/repo", "log", "--format=%h", "-1"]).stdout.strip())
        json.dump(meta, open(os.path.join(out, "meta.json"), "w"), indent=1)
        print(json.dumps(dict(name=name, confirmed=conf["confirmed"], detection={k: v["exit"] for k, v in det.items()}, conf={k: v for k, v in conf.items() if k != "demo_output_with_change"})))
    finally:
        shutil.rmtree(base, ignore_errors=True)
        shutil.rmtree(mut, ignore_errors=True)


if __name__ == "__main__":
    main(sys.argv[1], sys.argv[2], sys.argv[3:])
