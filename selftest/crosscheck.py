"""Solver diversity: re-decide a sample of the obligation queries of a check with cvc5 (Python wheel 1.4.0 in python3-vt).
usage: python3-vt selftest/crosscheck.py <property id> [--every N] [--max M] [--timeout ms]
A disagreement (z3 unsat vs cvc5 sat or vice versa) is reported; cvc5 unknown/timeouts are counted as inconclusive."""
import glob
import json
import os
import shutil
import subprocess
import sys
import tempfile
import time

ROOT = os.path.dirname(os.path.dirname(os.path.abspath(__file__)))


def sanitize(path):
    """drop z3-specific top-level commands ((model-add ...), (model-del ...)) from a dumped query"""
    txt = open(path).read()
    out, depth, start = [], 0, 0
    i = 0
    n = len(txt)
    while i < n:
        ch = txt[i]
        if ch == ";" and depth == 0:
            j = txt.find("\n", i)
            j = n if j < 0 else j
            out.append(txt[i:j + 1])
            i = j + 1
            continue
        if ch == "(":
            if depth == 0:
                start = i
            depth += 1
        elif ch == ")":
            depth -= 1
            if depth == 0:
                form = txt[start:i + 1]
                if form.startswith(("(declare-", "(define-", "(assert", "(set-", "(check-sat")):
                    out.append(form + "\n")
        i += 1
    open(path, "w").write("".join(out))


def decide(path, timeout_ms):
    import cvc5

    sanitize(path)

    slv = cvc5.Solver()
    slv.setOption("tlimit-per", str(timeout_ms))
    slv.setOption("produce-models", "false")
    sm = cvc5.SymbolManager(slv)
    parser = cvc5.InputParser(slv, sm)
    parser.setFileInput(cvc5.InputLanguage.SMT_LIB_2_6, path)
    res = None
    while True:
        cmd = parser.nextCommand()
        if cmd.isNull():
            break
        out = cmd.invoke(slv, sm)
        if "sat" in str(out) or "unknown" in str(out):
            res = str(out).strip()
    return res


def main():
    pid = sys.argv[1]
    every = int(sys.argv[sys.argv.index("--every") + 1]) if "--every" in sys.argv else 97
    mx = int(sys.argv[sys.argv.index("--max") + 1]) if "--max" in sys.argv else 200
    tmo = int(sys.argv[sys.argv.index("--timeout") + 1]) if "--timeout" in sys.argv else 20000
    d = tempfile.mkdtemp(prefix="xcheck_")
    try:
        env = dict(os.environ, VERIF_XDUMP=d, VERIF_XEVERY=str(every), VERIF_XMAX=str(mx))
        subprocess.run([os.path.join(ROOT, "check"), pid, "--tier", "quick"], env=env, cwd=ROOT, capture_output=True, text=True)
        files = sorted(glob.glob(os.path.join(d, "*.smt2")))[:mx]
        agree = disagree = inconclusive = errors = 0
        bad = []
        t0 = time.time()
        for f in files:
            z = open(f).readline().split(":")[1].strip()
            try:
                c = decide(f, tmo)
            except Exception as ex:  # noqa: BLE001
                errors += 1
                if errors <= 3:
                    bad.append(dict(file=os.path.basename(f), error=str(ex)[:200]))
                continue
            if c in ("sat", "unsat") and z in ("sat", "unsat"):
                if c == z:
                    agree += 1
                else:
                    disagree += 1
                    keep = os.path.join(ROOT, "selftest", f"disagreement_{pid}_{os.path.basename(f)}")
                    shutil.copy(f, keep)
                    bad.append(dict(file=keep, z3=z, cvc5=c))
            else:
                inconclusive += 1
        res = dict(property=pid, queries=len(files), agree=agree, disagree=disagree, cvc5_inconclusive=inconclusive, parse_errors=errors, seconds=round(time.time() - t0, 1), details=bad[:5])
        print(json.dumps(res))
        out = os.path.join(ROOT, "selftest", "crosscheck.json")
        prev = [r for r in (json.load(open(out)) if os.path.exists(out) else []) if r["property"] != pid]
        json.dump(prev + [res], open(out, "w"), indent=1)
    finally:
        shutil.rmtree(d, ignore_errors=True)


if __name__ == "__main__":
    main()
