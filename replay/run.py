"""Replay a solver counterexample on the unmodified code: real numpy, no z3, no stand-in.
Run as: /venv/bin/python replay/run.py <replay.json>.  Exit 1 = the violation reproduces, 0 = it does not,
3 = the replay could not be performed."""
import importlib
import json
import os
import sys
import warnings

ROOT = os.path.dirname(os.path.dirname(os.path.abspath(__file__)))
sys.path.insert(0, ROOT)
sys.dont_write_bytecode = True


def main(path):
    from symex.concrete import ConcreteCtx, ReplayMismatch

    spec = json.load(open(path))
    H = importlib.import_module(f"harness.{spec['property']}")
    ctx = ConcreteCtx(spec["witness"])
    warnings.simplefilter("ignore")
    import logging

    logging.disable(logging.CRITICAL)
    try:
        try:
            res = H.scenario(ctx, spec["shard"])
            outcome = ("ok", res)
        except ReplayMismatch:
            raise
        except Exception as ex:  # noqa: BLE001
            outcome = ("exc", ex)
        H.judge(ctx, spec["shard"], outcome)
    except ReplayMismatch as ex:
        print(f"replay mismatch: {ex}")
        return 3
    desc = H.describe(ctx, spec["shard"], outcome) if hasattr(H, "describe") else ""
    print(f"replayed on {os.environ.get('VERIF_REPO', '/repo')} with real numpy: outcome={outcome[0]}"
          + (f" ({type(outcome[1]).__name__}: {str(outcome[1])[:200]})" if outcome[0] == "exc" else ""))
    if desc:
        print(desc)
    if ctx.failed:
        for f in ctx.failed[:8]:
            print(f"  FAILED claim: {f['label']}" + (f" -- {f['info']}" if f.get("info") else ""))
        return 1
    print(f"  all {ctx.checked} claims hold on the replayed input")
    return 0


def enumerate_main(pid, params_json):
    """exhaustive concrete enumeration of one shard on the real code (real numpy); prints one JSON line"""
    import logging

    from symex.concrete import enumerate_shard

    warnings.simplefilter("ignore")
    logging.disable(logging.CRITICAL)
    H = importlib.import_module(f"harness.{pid}")
    print("ENUM-RESULT " + json.dumps(enumerate_shard(H, json.loads(params_json)), default=str))
    return 0


if __name__ == "__main__":
    if sys.argv[1] == "--enumerate":
        sys.exit(enumerate_main(sys.argv[2], sys.argv[3]))
    sys.exit(main(sys.argv[1]))
