"""Pure-Python stand-in for the numpy surface robotools uses.

Symbolic-agnostic: elements may be proxies (anything with a ``__sym__`` attribute); no z3 import here,
so the same module is used (a) inside symbolic runs, and (b) under /venv/bin/python with pytest to
validate it against the repository's own test-suite (see selftest/shimplug.py).
Unknown numpy attributes fall back to real numpy when all operands are concrete.
"""
import builtins
import math
import operator

import numpy as _np

nan = float("nan")
inf = float("inf")
pi = math.pi
newaxis = None
float64 = float
int64 = int


def _is_sym(x):
    return hasattr(x, "__sym__")


class ShimUnsupported(BaseException):
    """a numpy feature that the stand-in does not model was applied to symbolic operands: the path is inconclusive"""


class f64(float):
    """numpy.float64 scalar semantics for concrete values: division by zero yields nan/inf instead of raising"""

    __npscalar__ = True

    def _w(self, r):
        return f64(r) if isinstance(r, float) else r

    def __add__(self, o):
        return self._w(float.__add__(self, o)) if not _is_sym(o) else NotImplemented

    def __radd__(self, o):
        return self._w(float.__radd__(self, o)) if not _is_sym(o) else NotImplemented

    def __sub__(self, o):
        return self._w(float.__sub__(self, o)) if not _is_sym(o) else NotImplemented

    def __rsub__(self, o):
        return self._w(float.__rsub__(self, o)) if not _is_sym(o) else NotImplemented

    def __mul__(self, o):
        if _is_sym(o) or isinstance(o, (list, tuple, ndarray)):
            return NotImplemented
        return self._w(float.__mul__(self, o))

    def __rmul__(self, o):
        if _is_sym(o) or isinstance(o, (list, tuple, ndarray)):
            return NotImplemented
        return self._w(float.__rmul__(self, o))

    def __neg__(self):
        return f64(float.__neg__(self))

    def __abs__(self):
        return f64(float.__abs__(self))

    def __truediv__(self, o):
        if _is_sym(o) or isinstance(o, ndarray):
            return NotImplemented
        if isinstance(o, (int, float)) and o == 0:
            a = float(self)
            if a == 0 or a != a:
                return f64(nan)
            return f64(math.copysign(inf, a) * math.copysign(1.0, float(o)))
        return self._w(float.__truediv__(self, o))

    def __rtruediv__(self, o):
        if _is_sym(o) or isinstance(o, ndarray):
            return NotImplemented
        if isinstance(o, (int, float)) and float(self) == 0:
            a = float(o)
            if a == 0 or a != a:
                return f64(nan)
            return f64(math.copysign(inf, a) * math.copysign(1.0, float(self)))
        return self._w(float.__rtruediv__(self, o))

    def item(self):
        return float(self)

    def copy(self):
        return self

    def __hash__(self):
        return float.__hash__(self)

    def __eq__(self, o):
        if _is_sym(o):
            return NotImplemented
        return float.__eq__(self, o)

    def __ne__(self, o):
        if _is_sym(o):
            return NotImplemented
        return float.__ne__(self, o)


def _scalar(x):
    """what indexing a numpy array yields: numpy scalars"""
    if type(x) is float:
        return f64(x)
    if _is_sym(x) and hasattr(x, "as_np"):
        return x.as_np()
    return x


def _strwidth(dtype):
    """width of a fixed-width unicode dtype spec ('<U3', 'U3', numpy.dtype('<U3')) or None"""
    if dtype is None or dtype is str:
        return None
    try:
        dt = _np.dtype(dtype)
    except TypeError:
        return None
    if dt.kind == "U" and dt.itemsize:
        return dt.itemsize // 4
    return None


def _slen(e):
    if hasattr(e, "chars"):
        return len(e.chars)
    if getattr(e, "__sym__", None) == "absstr":
        return None
    return len(e)


class ndarray:
    __array_priority__ = 10000
    sw = None   # fixed width of a unicode array (numpy truncates longer strings on assignment), None = not a fixed-width string array

    def __init__(self, flat, shape, kind=None, sw=None):
        self._f = list(flat)
        self.sw = sw
        self.shape = tuple(shape)
        n = 1
        for s in self.shape:
            n *= s
        assert n == len(self._f), (shape, len(self._f))

    @property
    def ndim(self):
        return len(self.shape)

    @property
    def size(self):
        return len(self._f)

    @property
    def dtype(self):
        if builtins.all(isinstance(e, str) for e in self._f) and self._f:
            return _np.dtype(f"<U{self.sw}" if self.sw else "<U8")
        if builtins.all(isinstance(e, bool) for e in self._f) and self._f:
            return _np.dtype(bool)
        if builtins.all(isinstance(e, int) for e in self._f) and self._f:
            return _np.dtype(int)
        return _np.dtype(float)

    def __len__(self):
        if not self.shape:
            raise TypeError("len() of unsized object")
        return self.shape[0]

    def copy(self):
        return ndarray(self._f, self.shape, sw=self.sw)

    def fill(self, value):
        if isinstance(value, ndarray):
            value = value.item()
        for i in range(len(self._f)):
            self._f[i] = self._coerce(value)

    def __getattr__(self, name):
        # a public numpy attribute / method that the stand-in does not model: the path is inconclusive, never an AttributeError
        # that the code under test (or a harness) could mistake for a legitimate rejection
        if name.startswith("_") or not hasattr(_np.ndarray, name):
            raise AttributeError(name)
        raise ShimUnsupported(f"ndarray.{name} is not modelled by the stand-in")

    def _allkind(self, pred):
        return bool(self._f) and builtins.all(pred(e) for e in self._f)

    def astype(self, t, copy=True, **kw):
        if kw:
            raise ShimUnsupported(f"ndarray.astype keywords {sorted(kw)}")
        if copy is False or (copy is not True and not copy):
            # numpy returns the array itself when the dtype already matches
            isf = t is float or getattr(t, "_is_sym_float", False) or t is _np.float64
            isi = t is int or getattr(t, "_is_sym_int", False)
            if isf and self._allkind(lambda e: _isfloatlike(e) and not isinstance(e, bool)):
                return self
            if isi and self._allkind(lambda e: (isinstance(e, int) and not isinstance(e, bool)) or getattr(e, "__sym__", None) == "int"):
                return self
            if t is bool and self._allkind(lambda e: isinstance(e, bool)):
                return self
        if t is float or getattr(t, "_is_sym_float", False) or t is _np.float64:
            return ndarray([x if _is_sym(x) else float(x) for x in self._f], self.shape)
        if t is int or getattr(t, "_is_sym_int", False):
            return ndarray([x if _is_sym(x) else int(x) for x in self._f], self.shape)
        if t is bool:
            return ndarray([bool(x) for x in self._f], self.shape)
        if t is str:
            return ndarray([str(x) for x in self._f], self.shape)
        raise NotImplementedError(t)

    def tolist(self):
        def plain(x):
            return float(x) if type(x) is f64 else x

        if self.ndim == 0:
            return plain(self._f[0])
        if self.ndim == 1:
            return [plain(x) for x in self._f]
        c = self.shape[1]
        return [[plain(x) for x in self._f[r * c: (r + 1) * c]] for r in range(self.shape[0])]

    def item(self):
        assert len(self._f) == 1
        return self._f[0]

    fcontig = False   # result of .T of a 2-D array: 'A'/'K' orders then read column-major, like numpy

    def flatten(self, order="C"):
        if order in ("A", "K"):
            order = "F" if self.fcontig else "C"
        if order == "C" or self.ndim <= 1:
            return ndarray(self._f, (len(self._f),), sw=self.sw)
        assert self.ndim == 2
        R, C = self.shape
        return ndarray([self._f[r * C + c] for c in range(C) for r in range(R)], (R * C,), sw=self.sw)

    def ravel(self, order="C"):
        return self.flatten(order)

    def __matmul__(self, o):
        if builtins.any(_is_sym(e) for e in self._f) or (isinstance(o, ndarray) and builtins.any(_is_sym(e) for e in o._f)):
            raise ShimUnsupported("matrix product on symbolic operands")
        return _from_real(_np.asarray(self) @ _np.asarray(o))

    def __rmatmul__(self, o):
        if builtins.any(_is_sym(e) for e in self._f):
            raise ShimUnsupported("matrix product on symbolic operands")
        return _from_real(_np.asarray(o) @ _np.asarray(self))

    def reshape(self, *shape, order="C"):
        if len(shape) == 1 and isinstance(shape[0], (tuple, list)):
            shape = tuple(shape[0])
        shape = tuple(operator.index(s) for s in shape)
        n = 1
        for s in shape:
            n *= s
        if -1 in shape:
            known = -n
            shape = tuple(len(self._f) // known if s == -1 else s for s in shape)
            n = len(self._f)
        if n != len(self._f):
            raise ValueError(f"cannot reshape array of size {len(self._f)} into shape {shape}")
        if order == "C" or len(shape) < 2:
            if not self.fcontig:
                # C-order reshape of a C-contiguous array is a view in numpy: share the element buffer
                v = ndarray([], shape[:0] + (0,), sw=self.sw)
                v._f, v.shape = self._f, shape
                return v
            return ndarray(self.flatten()._f, shape, sw=self.sw)
        assert len(shape) == 2
        R, C = shape
        src = self.flatten("F")._f
        return ndarray([src[c * R + r] for r in range(R) for c in range(C)], shape, sw=self.sw)

    @property
    def T(self):
        if self.ndim < 2:
            return self.copy()
        R, C = self.shape
        t = ndarray([self._f[r * C + c] for c in range(C) for r in range(R)], (C, R), sw=self.sw)
        t.fcontig = not self.fcontig
        return t

    # ---- indexing
    def __getitem__(self, idx):
        if idx is True:
            return ndarray(self._f, (1,) + self.shape)
        if isinstance(idx, ndarray):
            if idx._f and builtins.all(isinstance(e, bool) or getattr(e, "__sym__", None) == "bool" for e in idx._f):
                # boolean mask; a symbolic element forks the path on its truth value
                if idx.shape != self.shape and builtins.any(_is_sym(e) for e in idx._f):
                    raise ShimUnsupported("boolean mask of a different shape with symbolic elements")
                sel = [v for v, m in zip(self._f, idx._f) if bool(m)]
                return ndarray(sel, (len(sel),), sw=self.sw)
            idx = idx.tolist()
        if not isinstance(idx, tuple):
            idx = (idx,)
        if self.ndim == 1:
            (i,) = idx
            if isinstance(i, slice):
                sub = self._f[i]
                return ndarray(sub, (len(sub),), sw=self.sw)
            if isinstance(i, (list, ndarray)):
                ii = i.tolist() if isinstance(i, ndarray) else i
                return ndarray([self._f[operator.index(j)] for j in ii], (len(ii),), sw=self.sw)
            return _scalar(self._f[operator.index(i)])
        assert self.ndim == 2, self.shape
        R, C = self.shape
        if len(idx) == 1:
            idx = (idx[0], slice(None))
        ri, ci = idx

        def expand(i, n):
            if isinstance(i, slice):
                return list(range(n))[i], True
            if isinstance(i, ndarray):
                i = i.tolist()
            if isinstance(i, list):
                return [range(n)[operator.index(j)] for j in i], True
            j = operator.index(i)
            if j < -n or j >= n:
                raise IndexError(f"index {j} is out of bounds for axis with size {n}")
            return [range(n)[j]], False

        if isinstance(ri, (list, ndarray)) and isinstance(ci, (list, ndarray)):
            # paired ("fancy") index arrays: element i is self[ri[i], ci[i]]
            rl = ri.tolist() if isinstance(ri, ndarray) else list(ri)
            cl = ci.tolist() if isinstance(ci, ndarray) else list(ci)
            if len(rl) != len(cl):
                raise IndexError("shape mismatch: indexing arrays could not be broadcast together")
            return ndarray([self._f[range(R)[operator.index(a)] * C + range(C)[operator.index(b)]] for a, b in zip(rl, cl)], (len(rl),), sw=self.sw)
        rows, rkeep = expand(ri, R)
        cols, ckeep = expand(ci, C)
        vals = [self._f[r * C + c] for r in rows for c in cols]
        if rkeep and ckeep:
            return ndarray(vals, (len(rows), len(cols)), sw=self.sw)
        if rkeep:
            return ndarray(vals, (len(rows),), sw=self.sw)
        if ckeep:
            return ndarray(vals, (len(cols),), sw=self.sw)
        return _scalar(vals[0])

    def __setitem__(self, idx, value):
        if isinstance(value, ndarray) and value.size == 1:
            value = value._f[0]
        if not isinstance(idx, tuple):
            idx = (idx,)
        if self.ndim == 1:
            (i,) = idx
            if isinstance(i, slice):
                rng = range(len(self._f))[i]
                vals = value._f if isinstance(value, ndarray) else ([value] * len(rng) if not isinstance(value, (list, tuple)) else list(value))
                for j, v in zip(rng, vals):
                    self._f[j] = self._coerce(v)
                return
            self._f[operator.index(i)] = self._coerce(value)
            return
        R, C = self.shape
        if len(idx) == 1:
            idx = (idx[0], slice(None))
        r, c = idx
        if isinstance(r, (list, ndarray)) and isinstance(c, (list, ndarray)):
            rl = r.tolist() if isinstance(r, ndarray) else list(r)
            cl = c.tolist() if isinstance(c, ndarray) else list(c)
            vals = value._f if isinstance(value, ndarray) else (list(value) if isinstance(value, (list, tuple)) else [value] * len(rl))
            if len(vals) == 1:
                vals = vals * len(rl)
            if not (len(rl) == len(cl) == len(vals)):
                raise ValueError("shape mismatch: value array could not be broadcast to indexing result")
            for a, b, v in zip(rl, cl, vals):   # numpy semantics: a repeated index keeps the last value written
                self._f[range(R)[operator.index(a)] * C + range(C)[operator.index(b)]] = self._coerce(v)
            return
        if isinstance(r, slice) or isinstance(c, slice):
            rows = list(range(R))[r] if isinstance(r, slice) else [range(R)[operator.index(r)]]
            cols = list(range(C))[c] if isinstance(c, slice) else [range(C)[operator.index(c)]]
            cells = [(a, b) for a in rows for b in cols]
            if isinstance(value, (list, tuple)):
                value = array(value)
            vals = value._f if isinstance(value, ndarray) else [value] * len(cells)
            if len(vals) == 1:
                vals = vals * len(cells)
            assert len(vals) == len(cells)
            for (a, b), v in zip(cells, vals):
                self._f[a * C + b] = self._coerce(v)
            return
        r, c = operator.index(r), operator.index(c)
        if not (-R <= r < R and -C <= c < C):
            raise IndexError("index out of bounds")
        self._f[(r % R) * C + (c % C)] = self._coerce(value)

    def _coerce(self, v):
        if self.sw is not None and isinstance(v, str):
            n = _slen(v)
            return v[: self.sw] if (n is None or n > self.sw) else v   # numpy silently truncates to the array's width
        # arrays created as float stay float
        if self._f and isinstance(self._f[0], float) and isinstance(v, int) and not isinstance(v, bool):
            return float(v)
        # integer arrays stay integer: numpy truncates a float that is assigned into them (towards zero)
        if self._f and builtins.all((isinstance(e, int) and not isinstance(e, bool)) or getattr(e, "__sym__", None) == "int" for e in self._f):
            if isinstance(v, float) and v == v and v not in (inf, -inf):
                return int(v)
            if getattr(v, "__sym__", None) == "float" and hasattr(v, "__trunc__"):
                return v.__trunc__()
        if type(v) is f64:
            return float(v)
        return v

    def __iter__(self):
        if self.ndim == 1:
            return iter([_scalar(x) for x in self._f])
        return (self[i] for i in range(self.shape[0]))

    # ---- elementwise
    def _ew(self, o, f):
        if isinstance(o, _np.ndarray):
            o = array(o)
        if isinstance(o, ndarray):
            if o.shape == self.shape:
                return ndarray([f(a, b) for a, b in zip(self._f, o._f)], self.shape)
            if o.size == 1:
                return ndarray([f(a, o._f[0]) for a in self._f], self.shape)
            if self.size == 1:
                return ndarray([f(self._f[0], b) for b in o._f], o.shape)
            # (R,C) op (C,) row broadcast
            if self.ndim == 2 and o.ndim == 1 and o.shape[0] == self.shape[1]:
                C = self.shape[1]
                return ndarray([f(a, o._f[i % C]) for i, a in enumerate(self._f)], self.shape)
            raise ValueError(f"operands could not be broadcast together with shapes {self.shape} {o.shape}")
        if isinstance(o, (list, tuple)):
            return self._ew(array(o), f)
        return ndarray([f(a, o) for a in self._f], self.shape)

    @staticmethod
    def _div(a, b):
        if not _is_sym(a) and not _is_sym(b):
            return f64(a) / b
        if _is_sym(a):
            return (a.as_np() if hasattr(a, "as_np") else a) / b
        return a / (b.as_np() if hasattr(b, "as_np") else b)

    def __add__(self, o):
        return self._ew(o, operator.add)

    def __radd__(self, o):
        return self._ew(o, lambda a, b: b + a)

    def __sub__(self, o):
        return self._ew(o, operator.sub)

    def __rsub__(self, o):
        return self._ew(o, lambda a, b: b - a)

    def __mul__(self, o):
        return self._ew(o, operator.mul)

    def __rmul__(self, o):
        return self._ew(o, lambda a, b: b * a)

    def __truediv__(self, o):
        return self._ew(o, self._div)

    def __rtruediv__(self, o):
        return self._ew(o, lambda a, b: self._div(b, a))

    def __neg__(self):
        return ndarray([-a for a in self._f], self.shape)

    def __lt__(self, o):
        return self._ew(o, operator.lt)

    def __le__(self, o):
        return self._ew(o, operator.le)

    def __gt__(self, o):
        return self._ew(o, operator.gt)

    def __ge__(self, o):
        return self._ew(o, operator.ge)

    def __eq__(self, o):
        if o is None:
            return ndarray([False] * len(self._f), self.shape)
        return self._ew(o, operator.eq)

    def __ne__(self, o):
        return self._ew(o, operator.ne)

    def __invert__(self):
        return ndarray([(not a) if isinstance(a, bool) else ~a for a in self._f], self.shape)

    def __and__(self, o):
        return self._ew(o, operator.and_)

    def __or__(self, o):
        return self._ew(o, operator.or_)

    __hash__ = None

    def __bool__(self):
        if len(self._f) != 1:
            raise ValueError("The truth value of an array with more than one element is ambiguous. Use a.any() or a.all()")
        return bool(self._f[0])

    def __float__(self):
        assert len(self._f) == 1
        return float(self._f[0])

    def __int__(self):
        assert len(self._f) == 1
        return int(self._f[0])

    def __index__(self):
        assert len(self._f) == 1
        return operator.index(self._f[0])

    def sum(self, axis=None, **kw):
        return sum(self, axis=axis)

    def any(self, axis=None, **kw):
        return any(self, axis=axis)

    def all(self, axis=None, **kw):
        return all(self, axis=axis)

    def min(self):
        return min(self)

    def max(self):
        return max(self)

    def round(self, decimals=0):
        return round(self, decimals)

    def __repr__(self):
        return f"array({self.tolist()!r})"

    __str__ = None

    def __format__(self, spec):
        return str(_np.asarray(self)) if not builtins.any(_is_sym(e) for e in self._f) else "array(" + ", ".join(format(e, spec) for e in self._f) + ")"

    def __array__(self, dtype=None, copy=None):
        return _np.array(self.tolist(), dtype=dtype)


def _str(self):
    if builtins.any(_is_sym(e) for e in self._f):
        return "[" + " ".join(str(e) for e in self._f) + "]"
    return str(_np.asarray(self))


ndarray.__str__ = _str


def _flatten_nested(x):
    if isinstance(x, ndarray):
        return list(x._f), x.shape
    if isinstance(x, _np.ndarray):
        return _flatten_nested(x.tolist())
    if isinstance(x, _np.generic):
        return [x.item()], ()
    if isinstance(x, (list, tuple)):
        if len(x) == 0:
            return [], (0,)
        subs = [_flatten_nested(e) for e in x]
        shp = subs[0][1]
        if builtins.any(s[1] != shp for s in subs):
            raise ValueError("setting an array element with a sequence. The requested array has an inhomogeneous shape")
        flat = []
        for s in subs:
            flat.extend(s[0])
        return flat, (len(x),) + shp
    if isinstance(x, (set, frozenset, dict)) or hasattr(x, "__next__"):
        return [x], ()
    return [x], ()


def _isfloatlike(e):
    return isinstance(e, float) or getattr(e, "__sym__", None) == "float"


def array(x, dtype=None):
    if isinstance(x, ndarray) and x.fcontig and _strwidth(dtype) is None:
        # numpy copies with order='K': a transposed (column-major in memory) array stays column-major
        r = array(x.T, dtype=dtype).T
        return r
    flat, shape = _flatten_nested(x)
    w = _strwidth(dtype)
    if w is not None or (flat and builtins.all(isinstance(e, str) for e in flat)):
        flat = [e if isinstance(e, str) else str(e) for e in flat]
        if w is None:
            lens = [_slen(e) for e in flat]
            w = None if builtins.any(n is None for n in lens) else builtins.max(lens + [1])
            if isinstance(x, ndarray) and x.sw is not None:
                w = x.sw
        else:
            flat = [e[:w] if (_slen(e) is None or _slen(e) > w) else e for e in flat]
        return ndarray(flat, shape, sw=w)
    if builtins.any(isinstance(e, str) for e in flat):
        flat = [e if isinstance(e, str) else str(e) for e in flat]
    elif builtins.any(_isfloatlike(e) for e in flat) or (dtype is not None and _is_float_dtype(dtype)):
        flat = [e if _is_sym(e) else (float(e) if e is not None else e) for e in flat]
    flat = [float(e) if type(e) is f64 else e for e in flat]
    return ndarray(flat, shape)


def _is_float_dtype(t):
    return t is float or t is _np.float64 or getattr(t, "_is_sym_float", False) or t in ("float", "float64", "f8", "d")


def asarray(x, dtype=None):
    if isinstance(x, ndarray) and (dtype is None or (_is_float_dtype(dtype) and x._allkind(lambda e: _isfloatlike(e) and not isinstance(e, bool)))):
        return x   # numpy: no copy when the input already is an array of the requested type
    return array(x, dtype=dtype)


def atleast_1d(x):
    a = array(x)
    if a.ndim == 0:
        return ndarray(a._f, (1,))
    return a


def _shape_tuple(shape):
    if isinstance(shape, (tuple, list)):
        return tuple(operator.index(s) for s in shape)
    return (operator.index(shape),)


def full(shape, value, dtype=None):
    if isinstance(value, ndarray):
        value = value.item()
    shape = _shape_tuple(shape)
    n = 1
    for s in shape:
        n *= s
    if n < 0:
        raise ValueError("negative dimensions are not allowed")
    w = _strwidth(dtype)
    if w is None and isinstance(value, str) and dtype in (None, str):
        w = _slen(value)
    if w is not None:
        value = value[:w] if isinstance(value, str) else str(value)[:w]
    return ndarray([value] * n, shape, sw=w)


def empty(shape, dtype=float):
    if _strwidth(dtype) is not None or dtype is str:
        return full(shape, "", dtype=dtype if dtype is not str else "<U1")
    return zeros(shape, dtype)


def zeros(shape, dtype=float):
    if _strwidth(dtype) is not None:
        return full(shape, "", dtype=dtype)
    return full(shape, 0.0 if dtype is float or getattr(dtype, "_is_sym_float", False) else (0 if dtype is int else 0.0))


def ones(shape, dtype=float):
    return full(shape, 1.0)


def zeros_like(a, dtype=None):
    return full(array(a).shape, 0.0)


def repeat(a, n):
    a = array(a)
    n = operator.index(n)
    out = []
    for e in a.flatten()._f:
        out.extend([e] * n)
    return ndarray(out, (len(out),))


def shape(x):
    return array(x).shape


def _reduce_bool(vals, is_all):
    syms = [v for v in vals if _is_sym(v)]
    conc = [bool(v) for v in vals if not _is_sym(v)]
    if is_all:
        if not builtins.all(conc):
            return False
        if not syms:
            return True
        r = syms[0]
        for s in syms[1:]:
            r = r & s
        return r
    if builtins.any(conc):
        return True
    if not syms:
        return False
    r = syms[0]
    for s in syms[1:]:
        r = r | s
    return r


def all(a, axis=None):
    a = array(a)
    assert axis is None
    return _reduce_bool(a._f, True)


def any(a, axis=None):
    a = array(a)
    if axis is None:
        return _reduce_bool(a._f, False)
    assert axis == 0 and a.ndim == 2
    R, C = a.shape
    return ndarray([_reduce_bool([a._f[r * C + c] for r in range(R)], False) for c in range(C)], (C,))


def sum(a, axis=None):
    a = array(a)
    assert axis is None
    tot = 0
    for e in a._f:
        if isinstance(e, bool):
            e = int(e)
        tot = tot + e
    return _scalar(tot) if isinstance(tot, float) else tot


def _minmax(a, pick_less):
    a = array(a)
    vals = list(a._f)
    if not vals:
        raise ValueError("zero-size array to reduction operation")
    best = vals[0]
    for v in vals[1:]:
        c = (v < best) if pick_less else (v > best)
        if _is_sym(c):
            best = c.sym_ite(v, best)
        elif c:
            best = v
    return _scalar(best)


def min(a, axis=None):
    return _minmax(a, True)


def max(a, axis=None):
    return _minmax(a, False)


amin, amax = min, max


def isnan(x):
    if _is_sym(x):
        return x.sym_isnan() if hasattr(x, "sym_isnan") else False
    if isinstance(x, (ndarray, list, tuple)):
        x = array(x)
        return ndarray([isnan(e) for e in x._f], x.shape)
    return math.isnan(x)


def isinf(x):
    if _is_sym(x):
        return x.sym_isinf() if hasattr(x, "sym_isinf") else False
    if isinstance(x, (ndarray, list, tuple)):
        x = array(x)
        return ndarray([isinf(e) for e in x._f], x.shape)
    return math.isinf(x)


def round(x, decimals=0):
    if isinstance(x, ndarray):
        return ndarray([round(e, decimals) for e in x._f], x.shape)
    if isinstance(x, (list, tuple)):
        return round(array(x), decimals)
    if _is_sym(x):
        return x.sym_round(decimals) if hasattr(x, "sym_round") else x
    if isinstance(x, bool):
        return x
    if isinstance(x, int):
        return x if decimals >= 0 else int(_np.round(x, decimals))
    return f64(_np.round(float(x), decimals))


around = round


def ceil(x):
    if isinstance(x, (ndarray, list, tuple)):
        x = array(x)
        return ndarray([ceil(e) for e in x._f], x.shape)
    if _is_sym(x):
        r = math.ceil(x)
        return r.to_float() if hasattr(r, "to_float") else float(r) if not _is_sym(r) else _tofloat(r)
    return f64(math.ceil(x)) if not (isinstance(x, float) and (x != x or x in (inf, -inf))) else f64(x)


def floor(x):
    if isinstance(x, (ndarray, list, tuple)):
        x = array(x)
        return ndarray([floor(e) for e in x._f], x.shape)
    if _is_sym(x):
        r = math.floor(x)
        return float(r) if not _is_sym(r) else _tofloat(r)
    return f64(math.floor(x)) if not (isinstance(x, float) and (x != x or x in (inf, -inf))) else f64(x)


def _tofloat(r):
    return r + 0.0


def transpose(a):
    return array(a).T


def arange(*args, dtype=None):
    vals = list(range(*[operator.index(x) for x in args]))
    if dtype is not None:
        dt = _np.dtype(_real_dtype(dtype))
        if dt.kind in "iu":
            # fixed-width integer arrays wrap around silently
            bits = dt.itemsize * 8
            lo = 0 if dt.kind == "u" else -(1 << (bits - 1))
            vals = [((v - lo) % (1 << bits)) + lo for v in vals]
        elif dt.kind == "f":
            vals = [float(v) for v in vals]
        else:
            raise ShimUnsupported(f"arange(dtype={dtype!r})")
    return array(vals)


def _real_dtype(t):
    if getattr(t, "_is_sym_float", False):
        return float
    if getattr(t, "_is_sym_int", False):
        return int
    return t


def flatnonzero(a):
    a = array(a).flatten()
    return array([i for i, e in enumerate(a._f) if bool(e)])   # a symbolic element is decided by the engine (fork)


def count_nonzero(a):
    a = array(a).flatten()
    tot = 0
    for e in a._f:
        tot = tot + (e if _is_sym(e) and not hasattr(e, "sym_ite") else (e.sym_ite(1, 0) if _is_sym(e) else (1 if e else 0)))
    return tot


def where(cond, a=None, b=None):
    cond = array(cond)
    if a is None:
        return (flatnonzero(cond),)
    A, B = array(a), array(b)
    n = len(cond._f)
    fa = A._f if A.size == n else A._f * n
    fb = B._f if B.size == n else B._f * n
    out = []
    for c, x, y in zip(cond._f, fa, fb):
        out.append(c.sym_ite(x, y) if _is_sym(c) else (x if c else y))
    return ndarray(out, cond.shape)


def maximum(a, b):
    A, B = array(a), array(b)
    return where(A._ew(B, operator.ge), A if A.size >= B.size else full(B.shape, A._f[0]), B if B.size >= A.size else full(A.shape, B._f[0]))


def minimum(a, b):
    A, B = array(a), array(b)
    return where(A._ew(B, operator.le), A if A.size >= B.size else full(B.shape, A._f[0]), B if B.size >= A.size else full(A.shape, B._f[0]))


def clip(a, lo, hi):
    return minimum(maximum(a, lo), hi)


def absolute(a):
    if isinstance(a, (ndarray, list, tuple)):
        a = array(a)
        return ndarray([abs(e) for e in a._f], a.shape)
    return abs(a)


def cumsum(a):
    a = array(a).flatten()
    out, tot = [], 0
    for e in a._f:
        tot = tot + e
        out.append(tot)
    return ndarray(out, (len(out),))


def concatenate(seq, axis=0):
    parts = [array(x).flatten() for x in seq]
    flat = [e for p in parts for e in p._f]
    return ndarray(flat, (len(flat),))


def logical_and(a, b):
    return array(a)._ew(b, operator.and_)


def logical_or(a, b):
    return array(a)._ew(b, operator.or_)


def logical_not(a):
    return ~array(a)


def unique(a):
    a = array(a)
    u = sorted(set(a._f))
    return ndarray(u, (len(u),))


def ndenumerate(a):
    a = array(a)
    if a.ndim == 1:
        for i, e in enumerate(a._f):
            yield (i,), _scalar(e)
    else:
        R, C = a.shape
        for r in range(R):
            for c in range(C):
                yield (r, c), _scalar(a._f[r * C + c])


def argsort(a, kind=None):
    a = array(a)
    return ndarray(sorted(range(len(a._f)), key=lambda i: a._f[i]), (len(a._f),))


def linspace(start, stop, num=50):
    num = operator.index(num)
    if num == 1:
        return ndarray([start + 0.0], (1,))
    step = (stop - start) / (num - 1)
    vals = [start + i * step for i in range(num)]
    if not _is_sym(stop):
        vals[-1] = float(stop)
    return ndarray(vals, (num,))


def allclose(a, b, rtol=1e-05, atol=1e-08):
    a, b = array(a), array(b)
    d = a - b
    conds = []
    bb = b._f if b.size == d.size else b._f * d.size
    for x, y in zip(d._f, bb):
        ax = abs(x)
        conds.append(ax <= atol + rtol * abs(y))
    return _reduce_bool(conds, True)


# ---- concrete fall-backs: anything not modelled goes to real numpy when all operands are concrete
def _to_real(x):
    if isinstance(x, ndarray):
        if builtins.any(_is_sym(e) for e in x._f):
            raise ShimUnsupported("numpy function outside the stand-in applied to symbolic operands")
        return _np.array(x.tolist())
    if isinstance(x, (list, tuple)):
        return type(x)(_to_real(e) for e in x)
    if _is_sym(x):
        raise ShimUnsupported("numpy function outside the stand-in applied to symbolic operands")
    return x


def _from_real(x):
    if isinstance(x, _np.ndarray):
        flat, shp = _flatten_nested(x.tolist())
        return ndarray(flat, x.shape)
    if isinstance(x, _np.generic):
        v = x.item()
        return f64(v) if isinstance(v, float) else v
    if isinstance(x, tuple):
        return tuple(_from_real(e) for e in x)
    return x


class _RandomState:
    def __init__(self, seed=None):
        self._r = _np.random.RandomState(seed)

    def __getattr__(self, name):
        real = getattr(self._r, name)

        def wrapper(*a, **k):
            return _from_real(real(*[_to_real(x) for x in a], **{kk: _to_real(v) for kk, v in k.items()}))

        return wrapper


class _Random:
    RandomState = _RandomState


random = _Random()
testing = _np.testing
typing = getattr(_np, "typing", None)


def broadcast_arrays(*args):
    """numpy broadcasting for scalars, 1-D and 2-D operands (shapes aligned at the trailing dimension)"""
    arrs = [a if isinstance(a, ndarray) else array(a) for a in args]
    nd = builtins.max([a.ndim for a in arrs] + [0])
    if nd > 2:
        raise ShimUnsupported("broadcast_arrays beyond two dimensions")
    shapes = [(1,) * (nd - a.ndim) + tuple(a.shape) for a in arrs]
    out = tuple(builtins.max(s[i] for s in shapes) for i in range(nd))
    for s in shapes:
        if builtins.any(s[i] not in (1, out[i]) for i in range(nd)):
            raise ValueError(f"shape mismatch: objects cannot be broadcast to a single shape. Mismatch is between {shapes}")
    res = []
    for a, s in zip(arrs, shapes):
        if nd == 0:
            res.append(ndarray(list(a._f), ()))
        elif nd == 1:
            res.append(ndarray([a._f[0 if s[0] == 1 else i] for i in range(out[0])], out, sw=a.sw))
        else:
            res.append(ndarray([a._f[(0 if s[0] == 1 else r) * s[1] + (0 if s[1] == 1 else c)] for r in range(out[0]) for c in range(out[1])], out, sw=a.sw))
    return res


def _guard_signatures():
    """a call that does not fit the stand-in's signature (a numpy keyword the stand-in does not know) is an unmodelled feature:
    the path is inconclusive - never a TypeError that could pass for a rejection by the code under test"""
    import functools
    import inspect
    import types

    g = globals()
    for name, f in list(g.items()):
        if name.startswith("_") or not isinstance(f, types.FunctionType) or f.__module__ != __name__:
            continue
        sig = inspect.signature(f)

        def mk(f, sig, name):
            @functools.wraps(f)
            def w(*a, **k):
                try:
                    sig.bind(*a, **k)
                except TypeError as ex:
                    raise ShimUnsupported(f"numpy.{name}: {ex}") from None
                return f(*a, **k)

            return w

        g[name] = mk(f, sig, name)


_guard_signatures()


def __getattr__(name):
    real = getattr(_np, name)
    if callable(real) and not isinstance(real, type):
        def wrapper(*a, **k):
            return _from_real(real(*[_to_real(x) for x in a], **{kk: _to_real(v) for kk, v in k.items()}))

        return wrapper
    return real
