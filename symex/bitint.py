"""Bit-vector backed ints (width BW) for code that builds bit masks with |, <<, + (C12)."""
import z3

from . import core

BW = 16


def bv(v):
    if isinstance(v, BInt):
        return v.bvt
    if isinstance(v, core.SInt):
        return z3.Int2BV(v.t, BW)
    return z3.BitVecVal(int(v), BW)


class BInt(core.SInt):
    __sym__ = "int"

    def __init__(self, eng, bvt):
        self.eng, self.bvt = eng, bvt

    @property
    def t(self):
        return z3.BV2Int(self.bvt, False)

    def __or__(self, o):
        return BInt(self.eng, self.bvt | bv(o))

    __ror__ = __or__

    def __and__(self, o):
        return BInt(self.eng, self.bvt & bv(o))

    __rand__ = __and__

    def __xor__(self, o):
        return BInt(self.eng, self.bvt ^ bv(o))

    def __add__(self, o):
        return BInt(self.eng, self.bvt + bv(o))

    __radd__ = __add__

    def __lshift__(self, o):
        return BInt(self.eng, self.bvt << bv(o))

    def __rlshift__(self, o):
        return BInt(self.eng, bv(o) << self.bvt)

    def __eq__(self, o):
        if o is None or isinstance(o, str):
            return False
        return core.SBool(self.eng, self.bvt == bv(o))

    def __ne__(self, o):
        return ~self.__eq__(o)

    def __lt__(self, o):
        return core.SBool(self.eng, z3.ULT(self.bvt, bv(o)))

    def __gt__(self, o):
        return core.SBool(self.eng, z3.UGT(self.bvt, bv(o)))

    def __le__(self, o):
        return core.SBool(self.eng, z3.ULE(self.bvt, bv(o)))

    def __ge__(self, o):
        return core.SBool(self.eng, z3.UGE(self.bvt, bv(o)))

    __hash__ = None

    def __index__(self):
        self.eng._raise(core.Unsupported("bit-vector int used as an index"))

    __int__ = __index__

    def __repr__(self):
        return f"<BInt {self.bvt}>"
