"""symex: symbolic shadow execution of the real robotools code (see DESIGN.md section 3)."""
