"""Per-path hygiene: every explored path (and every replay / enumerated case) starts from the state of a fresh process.

Memoisation caches and mutable module- or class-level containers inside the robotools modules are hidden process state; a path
that inherits entries written by a previously explored path would not be reproducible by a replay.  Histories that matter are made
explicit in the scenarios instead (a scenario performs the earlier calls itself)."""
import copy
import sys

_SNAP = None


def _robotools_modules():
    for name, mod in list(sys.modules.items()):
        if mod is not None and (name == "robotools" or name.startswith("robotools.")) and ".test_" not in name:
            yield mod


def _containers():
    seen = set()
    for mod in _robotools_modules():
        for name, obj in list(vars(mod).items()):
            if name.startswith("__"):
                continue
            if isinstance(obj, (dict, list, set)) and id(obj) not in seen:
                seen.add(id(obj))
                yield obj
            if isinstance(obj, type) and str(getattr(obj, "__module__", "")).startswith("robotools"):
                for an, av in list(vars(obj).items()):
                    if not an.startswith("__") and isinstance(av, (dict, list, set)) and id(av) not in seen:
                        seen.add(id(av))
                        yield av


def _load_all():
    """import every robotools module now, so that the first snapshot is the state of a fresh process"""
    import importlib
    import pkgutil
    try:
        import robotools
    except Exception:  # noqa: BLE001
        return False
    for mi in pkgutil.walk_packages(robotools.__path__, "robotools."):
        if ".test_" not in mi.name:
            try:
                importlib.import_module(mi.name)
            except Exception:  # noqa: BLE001
                pass
    return True


def reset_process_state():
    global _SNAP
    n = 0
    if _SNAP is None and not _load_all():
        return 0
    for mod in _robotools_modules():
        for obj in list(vars(mod).values()):
            n += _clear(obj)
            if isinstance(obj, type) and str(getattr(obj, "__module__", "")).startswith("robotools"):
                for attr in list(vars(obj).values()):
                    n += _clear(getattr(attr, "__func__", attr))
                    n += _clear(getattr(attr, "fget", None))
    if _SNAP is None:
        _SNAP = []
        for obj in _containers():
            try:
                _SNAP.append((obj, copy.deepcopy(obj)))
            except Exception:  # noqa: BLE001
                pass
    else:
        for obj, saved in _SNAP:
            try:
                fresh = copy.deepcopy(saved)
                if isinstance(obj, dict):
                    if obj != fresh or len(obj) != len(fresh):
                        obj.clear()
                        obj.update(fresh)
                elif isinstance(obj, list):
                    obj[:] = fresh
                else:
                    obj.clear()
                    obj.update(fresh)
            except Exception:  # noqa: BLE001
                pass
    return n


def _clear(obj):
    cc = getattr(obj, "cache_clear", None)
    if callable(cc) and hasattr(obj, "__wrapped__"):
        try:
            cc()
            return 1
        except Exception:  # noqa: BLE001
            return 0
    return 0
