"""Per-path hygiene: every explored path (and every replay / enumerated case) starts from the state of a fresh process.

Memoisation caches inside the robotools modules are hidden process state; a path that inherits entries written by a previously
explored path would not be reproducible by a replay.  Histories that matter are made explicit in the scenarios instead
(a scenario performs the earlier calls itself)."""
import sys


def reset_process_state():
    n = 0
    for name, mod in list(sys.modules.items()):
        if mod is None or not (name == "robotools" or name.startswith("robotools.")):
            continue
        for obj in list(vars(mod).values()):
            n += _clear(obj)
            if isinstance(obj, type) and getattr(obj, "__module__", "").startswith("robotools"):
                for attr in list(vars(obj).values()):
                    n += _clear(getattr(attr, "__func__", attr))
                    n += _clear(getattr(attr, "fget", None))
    return n


def _clear(obj):
    cc = getattr(obj, "cache_clear", None)
    if callable(cc) and hasattr(obj, "__wrapped__"):
        try:
            cc()
            return 1
        except Exception:  # noqa: BLE001
            return 0
    return 0
