"""Import robotools from the repository working tree and inject symbolic-aware names into its module
globals (numpy stand-in, float/int/len/isinstance shadows).  Nothing under the repository is modified."""
import builtins
import importlib
import os
import pkgutil
import sys

from . import core, npshim

REPO = os.environ.get("VERIF_REPO", "/repo")
MODS = {}


class _FloatMeta(type):
    def __instancecheck__(cls, x):
        return isinstance(x, (builtins.float, core.SFloat))

    def __call__(cls, x=0.0):
        if isinstance(x, core.SFloat):
            return x
        if isinstance(x, core.SInt):
            return core.SFloat(x.eng, core.num_term(x.eng, x))
        if isinstance(x, core.SBool):
            return core.SFloat(x.eng, core.num_term(x.eng, x))
        if type(x) is npshim.f64:
            return builtins.float(x)
        if isinstance(x, npshim.ndarray):
            if x.size == 1:
                return cls(x._f[0])
            raise TypeError("only length-1 arrays can be converted to Python scalars")
        if getattr(x, "__sym__", None) in ("absstr", "chars"):
            raise ValueError("could not convert string to float")
        return builtins.float(x)


class sym_float(metaclass=_FloatMeta):
    _is_sym_float = True


class _IntMeta(type):
    def __instancecheck__(cls, x):
        return isinstance(x, (builtins.int, core.SInt))

    def __call__(cls, x=0, *a):
        if isinstance(x, core.SInt):
            return x
        if hasattr(x, "sym_int"):
            return x.sym_int()
        if isinstance(x, core.SFloat):
            return x.__trunc__()
        return builtins.int(x, *a)


class sym_int(metaclass=_IntMeta):
    _is_sym_int = True


def sym_ord(x):
    if getattr(x, "__sym__", None) == "chars" and len(x.chars) == 1:
        return core.SInt(x.eng, x.chars[0])
    return builtins.ord(x)


def sym_len(x):
    if hasattr(x, "sym_len"):
        return x.sym_len()
    return len(x)


def _real_type(t):
    if getattr(t, "_is_sym_float", False):
        return builtins.float
    if getattr(t, "_is_sym_int", False):
        return builtins.int
    return t


def sym_isinstance(x, t):
    import numbers

    ts = t if isinstance(t, tuple) else (t,)
    ts = tuple(_real_type(tt) for tt in ts)
    if isinstance(x, core.SInt):
        return any(tt is builtins.int or tt is object or tt in (numbers.Integral, numbers.Rational, numbers.Real, numbers.Complex, numbers.Number) for tt in ts)
    if isinstance(x, core.SFloat):
        return any(tt is builtins.float or tt is object or tt in (numbers.Real, numbers.Complex, numbers.Number) for tt in ts)
    if isinstance(x, core.SBool):
        return any(tt is builtins.bool or tt is builtins.int or tt is object for tt in ts)
    return isinstance(x, ts)


def install():
    """idempotent"""
    if MODS:
        return MODS
    if REPO not in sys.path:
        sys.path.insert(0, REPO)
    sys.dont_write_bytecode = True
    import importlib.metadata as _md

    _orig_version = _md.version

    def _version(name):   # scratch copies of the repository carry no package metadata
        try:
            return _orig_version(name)
        except _md.PackageNotFoundError:
            if name == "robotools":
                return "0+verif"
            raise

    _md.version = _version
    import robotools

    assert os.path.realpath(robotools.__file__).startswith(os.path.realpath(REPO)), robotools.__file__
    for mi in pkgutil.walk_packages(robotools.__path__, "robotools."):
        if ".test_" in mi.name:
            continue
        m = importlib.import_module(mi.name)
        MODS[mi.name] = m
        for nm in ("np", "numpy"):
            if hasattr(m, nm):
                setattr(m, nm, npshim)
        m.float = sym_float
        m.int = sym_int
        m.len = sym_len
        m.ord = sym_ord
        m.isinstance = sym_isinstance
    MODS["robotools"] = robotools
    return MODS
