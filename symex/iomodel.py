"""In-memory model of text-file output for the C17 harness: open(path, mode, newline=, encoding=) / Path.unlink.

A file is a list of byte items; an item is an int (concrete byte) or a tuple (encoding, char) for a symbolic character
written through `encoding`.  Semantics follow the `io.TextIOWrapper` documentation: on output '\\n' is translated to
os.linesep when newline is None, left alone when newline is '' or '\\n', and replaced by newline otherwise; mode 'w'
truncates, 'a' appends, 'r+' overwrites from the start without truncating.  Validated against real files (selftest)."""
import os
import re

_TOK = re.compile("([^]*)")


class ModelFS:
    def __init__(self):
        self.files = {}

    def open(self, tokens):
        fs = self

        def _open(path, mode="r", buffering=-1, encoding=None, errors=None, newline=None, **kw):
            return Stream(fs, str(path), mode, encoding or "utf-8", newline, tokens)

        return _open


class Stream:
    def __init__(self, fs, path, mode, encoding, newline, tokens):
        self.fs, self.path, self.mode, self.encoding, self.newline, self.tokens = fs, path, mode, encoding.lower().replace("-", "_"), newline, tokens
        if newline not in (None, "", "\n", "\r", "\r\n"):
            raise ValueError(f"illegal newline value: {newline!r}")
        if mode in ("w", "wt"):
            fs.files[path] = []
            self.pos = 0
        elif mode in ("a", "at"):
            fs.files.setdefault(path, [])
            self.pos = len(fs.files[path])
        elif mode in ("r+", "r+t"):
            if path not in fs.files:
                raise FileNotFoundError(path)
            self.pos = 0
        elif mode in ("x", "xt"):
            if path in fs.files:
                raise FileExistsError(path)
            fs.files[path] = []
            self.pos = 0
        else:
            raise ValueError(f"mode {mode!r} not modelled")

    def __enter__(self):
        return self

    def __exit__(self, *a):
        return False

    def close(self):
        pass

    def _enc(self, ch):
        o = ord(ch)
        if self.encoding in ("latin_1", "latin1", "iso8859_1", "iso_8859_1"):
            if o > 255:
                raise UnicodeEncodeError("latin-1", ch, 0, 1, "ordinal not in range(256)")
            return [o]
        return list(ch.encode(self.encoding.replace("_", "-")))

    def write(self, text):
        out = []
        for part in _TOK.split(str.__str__(text)):
            if part in self.tokens:
                obj = self.tokens[part][0]
                for c in obj.chars:
                    out.append((self.encoding, c))
                continue
            for ch in part:
                if ch == "\n":
                    nl = os.linesep if self.newline is None else ("\n" if self.newline in ("", "\n") else self.newline)
                    for x in nl:
                        out.extend(self._enc(x))
                else:
                    out.extend(self._enc(ch))
        buf = self.fs.files[self.path]
        buf[self.pos:self.pos + len(out)] = out
        self.pos += len(out)
        return len(text)


class _Stat:
    def __init__(self, size):
        self.st_size = size


class ModelPath:
    """minimal pathlib.Path stand-in bound to a ModelFS"""
    fs = None

    def __init__(self, p):
        self._p = str(p)

    @property
    def name(self):
        return self._p.rsplit("/", 1)[-1]

    @property
    def suffix(self):
        n = self.name
        i = n.rfind(".")
        return n[i:] if 0 < i < len(n) - 1 else ""

    @property
    def stem(self):
        n = self.name
        return n[: len(n) - len(self.suffix)] if self.suffix else n

    def unlink(self, missing_ok=False):
        if self._p in self.fs.files:
            del self.fs.files[self._p]
        elif not missing_ok:
            raise FileNotFoundError(self._p)

    def touch(self):
        self.fs.files.setdefault(self._p, [])

    def exists(self):
        return self._p in self.fs.files

    is_file = exists

    def stat(self):
        if self._p not in self.fs.files:
            raise FileNotFoundError(self._p)
        return _Stat(len(self.fs.files[self._p]))

    def __str__(self):
        return self._p

    def __fspath__(self):
        return self._p

    def __eq__(self, o):
        return str(o) == self._p

    def __hash__(self):
        return hash(self._p)

    def __bool__(self):
        return True


def selftest(tmpdir):
    """differential test of the stream model against real files"""
    bad = 0
    texts = ["", "a", "a\nb", "C;µ\nB;", "x\n", "\n\n"]
    for newline in (None, "", "\n", "\r\n"):
        for enc in ("latin_1", "utf-8"):
            for mode, pre in (("w", b"OLDOLDOLDOLD"), ("a", b"OLD"), ("r+", b"OLDOLDOLDOLDOLD")):
                for t in texts:
                    p = os.path.join(tmpdir, "f.txt")
                    with open(p, "wb") as f:
                        f.write(pre)
                    with open(p, mode, newline=newline, encoding=enc) as f:
                        f.write(t)
                    real = list(open(p, "rb").read())
                    fs = ModelFS()
                    fs.files[p] = list(pre)
                    with fs.open({})(p, mode, newline=newline, encoding=enc) as f:
                        f.write(t)
                    if fs.files[p] != real:
                        bad += 1
    return bad
