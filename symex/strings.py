"""Symbolic strings without z3's sequence theory.

SAbsStr : abstract string - only its length (Int) and which single characters it contains (one Bool per
          character the code asks about) are observable.  Exact for code that only does len(s), `c in s`,
          truthiness and formatting; every (length, flags) assignment is realised by a concrete string.
SChars  : string of concrete length whose characters are z3 Int code points (Latin-1).
"""
import itertools

import z3

from . import core

TOKL, TOKR = "\ue000", "\ue001"


class SAbsStr(str):
    __sym__ = "absstr"

    def __new__(cls, eng, name, maxlen=40, parent=None):
        tok = f"{TOKL}{name}{TOKR}"
        o = super().__new__(cls, tok)
        o.eng, o.name, o.tok = eng, name, tok
        o.L = z3.Int(name + "!len")
        eng.solver.add(o.L >= 0, o.L <= maxlen)
        o.has = {}
        o.examined = set()
        o.parent = parent
        o.children = []
        if parent is None:
            eng.register(name, "obj", o)
            eng.tokens[tok] = (o, "")
        return o

    def sym_len(self):
        self.examined.add("len")
        return core.SInt(self.eng, self.L)

    def flag(self, ch):
        if ch not in self.has:
            b = z3.Bool(f"{self.name}!has{ord(ch)}")
            self.has[ch] = b
            # enough room for all distinct characters asked about
            self.eng.solver.add(z3.Implies(b, self.L >= 1))
            if len(self.has) > 1:
                self.eng.solver.add(z3.Sum([z3.If(x, 1, 0) for x in self.has.values()]) <= self.L)
            if self.parent is not None:
                par = self.parent
                self.eng.solver.add(z3.Implies(b, par.flag(ch)))
                # characters the parent contains but this prefix does not must sit behind the prefix
                late = [z3.If(z3.And(par.flag(c), z3.Not(f)), 1, 0) for c, f in self.has.items()]
                self.eng.solver.add(par.L >= z3.If(z3.Sum(late) > 0, self.stop + z3.Sum(late), 0))
        return self.has[ch]

    def __contains__(self, sub):
        if not (isinstance(sub, str) and len(sub) == 1) or isinstance(sub, SAbsStr):
            self.eng._raise(core.Unsupported("abstract string: containment of a non-single-character"))
        self.examined.add(sub)
        return bool(core.SBool(self.eng, self.flag(sub)))

    def __bool__(self):
        return bool(core.SBool(self.eng, self.L > 0))

    def __len__(self):
        # C-level len(): only reached if the sym_len shadow is not installed
        return self.eng.concretize_int(self.L, 0, 41)

    def __format__(self, spec):
        if spec != "":
            self.eng._raise(core.Unsupported("abstract string: format spec"))
        return str.__str__(self)

    def __str__(self):
        return str.__str__(self)

    def __getitem__(self, i):
        if isinstance(i, slice) and i.step is None and (i.start in (None, 0)) and isinstance(i.stop, int) and i.stop >= 0:
            sub = SAbsStr(self.eng, f"{self.name}[:{i.stop}]", parent=self)
            sub.stop = i.stop
            self.children.append(sub)
            self.eng.solver.add(sub.L == z3.If(self.L < i.stop, self.L, i.stop))
            self.eng.tokens[sub.tok] = (sub, "")
            return sub
        self.eng._raise(core.Unsupported("abstract string: indexing"))

    def _unsup(self, *a, **k):
        self.eng._raise(core.Unsupported("abstract string: unsupported observation"))

    def __eq__(self, o):
        if isinstance(o, str) and not isinstance(o, SAbsStr):
            if o == "":
                return core.SBool(self.eng, self.L == 0)
        if o is self:
            return True
        if not isinstance(o, str):
            return False
        self._unsup()

    def __ne__(self, o):
        r = self.__eq__(o)
        return ~r if isinstance(r, core.SBool) else not r

    __hash__ = None
    lower = upper = strip = split = startswith = endswith = find = index = replace = encode = _unsup
    __lt__ = __gt__ = __le__ = __ge__ = _unsup

    def __add__(self, o):
        self._unsup()

    def concretize(self, model):
        n = model.eval(self.L, model_completion=True).as_long()
        chars = [ch for ch, b in self.has.items() if z3.is_true(model.eval(b, model_completion=True))]
        late = []
        for sub in self.children:
            for ch, b in sub.has.items():
                if ch in chars and not z3.is_true(model.eval(b, model_completion=True)) and ch not in late:
                    late.append(ch)
        early = [ch for ch in chars if ch not in late]
        fill = "a"
        s = "".join(early) + fill * max(0, n - len(early) - len(late)) + "".join(late)
        return {"str": s}


class SChars(str):
    __sym__ = "chars"
    _n = itertools.count()

    def __new__(cls, eng, chars, name=None):
        tok = f"{TOKL}c{next(cls._n)}{TOKR}"
        obj = super().__new__(cls, tok)
        obj.eng, obj.chars, obj.tok, obj.name = eng, list(chars), tok, name
        eng.tokens[tok] = (obj, "")
        if name is not None:
            eng.register(name, "obj", obj)
        return obj

    @classmethod
    def fresh(cls, eng, name, length, lo=32, hi=255):
        chars = [z3.Int(f"{name}!{i}") for i in range(length)]
        for c in chars:
            eng.solver.add(c >= lo, c <= hi)
        return cls(eng, chars, name=name)

    def sym_len(self):
        return len(self.chars)

    def __len__(self):
        return len(self.chars)

    def __bool__(self):
        return len(self.chars) > 0

    def __iter__(self):
        return iter([SChars(self.eng, [c]) for c in self.chars])

    def __getitem__(self, i):
        if isinstance(i, slice):
            return SChars(self.eng, self.chars[i])
        return SChars(self.eng, [self.chars[i]])

    def _other(self, o):
        if isinstance(o, SChars):
            return o.chars
        if isinstance(o, str):
            return [z3.IntVal(ord(ch)) for ch in o]
        return None

    def __eq__(self, o):
        oc = self._other(o)
        if oc is None or len(oc) != len(self.chars):
            return False
        if not oc:
            return True
        return core.SBool(self.eng, z3.And(*[a == b for a, b in zip(self.chars, oc)]))

    def __ne__(self, o):
        r = self.__eq__(o)
        return ~r if isinstance(r, core.SBool) else not r

    def __lt__(self, o):
        oc = self._other(o)
        if oc is None:
            return NotImplemented
        # lexicographic comparison, shorter prefix is smaller
        res = z3.BoolVal(len(self.chars) < len(oc))
        for p, q in reversed(list(zip(self.chars, oc))):
            res = z3.If(p < q, True, z3.If(p > q, False, res))
        return core.SBool(self.eng, res)

    def __gt__(self, o):
        oc = self._other(o)
        if oc is None:
            return NotImplemented
        res = z3.BoolVal(len(self.chars) > len(oc))
        for p, q in reversed(list(zip(self.chars, oc))):
            res = z3.If(p > q, True, z3.If(p < q, False, res))
        return core.SBool(self.eng, res)

    def __le__(self, o):
        return ~self.__gt__(o)

    def __ge__(self, o):
        return ~self.__lt__(o)

    def __contains__(self, sub):
        if isinstance(sub, str) and not isinstance(sub, SChars) and len(sub) == 1:
            if not self.chars:
                return False
            return bool(core.SBool(self.eng, z3.Or(*[c == ord(sub) for c in self.chars])))
        self.eng._raise(core.Unsupported("SChars: containment of a multi-character string"))

    def __format__(self, spec):
        if spec != "":
            self.eng._raise(core.Unsupported("SChars: format spec"))
        return str.__str__(self)

    def __str__(self):
        return str.__str__(self)

    def __hash__(self):
        # hashing concretises the characters (bounded fork); used when the id reaches a real dict
        vals = [self.eng.concretize_int(c, 32, 255) for c in self.chars]
        return hash("".join(chr(v) for v in vals))

    def sym_int(self):
        """int(s) for a digit string (the regex model guarantees digits on the path)"""
        t = z3.IntVal(0)
        for c in self.chars:
            t = t * 10 + (c - 48)
        return core.SInt(self.eng, t)

    def is_space(self, c):
        return z3.Or(c == 32, z3.And(c >= 9, c <= 13), z3.And(c >= 28, c <= 31), c == 133, c == 160)

    def split(self, sep=None, maxsplit=-1):
        if not (isinstance(sep, str) and len(sep) == 1) or maxsplit != -1:
            self.eng._raise(core.Unsupported("SChars.split"))
        parts, cur = [], []
        for c in self.chars:
            if self.eng.branch(c == ord(sep)):
                parts.append(SChars(self.eng, cur))
                cur = []
            else:
                cur.append(c)
        parts.append(SChars(self.eng, cur))
        return parts

    def strip(self, chars=None):
        if chars is not None:
            self.eng._raise(core.Unsupported("SChars.strip(chars)"))
        cs = list(self.chars)
        while cs and self.eng.branch(self.is_space(cs[0])):
            cs.pop(0)
        while cs and self.eng.branch(self.is_space(cs[-1])):
            cs.pop()
        return SChars(self.eng, cs)

    def _unsup(self, *a, **k):
        self.eng._raise(core.Unsupported("SChars: unsupported observation"))

    lower = upper = startswith = endswith = find = index = replace = encode = _unsup

    def concretize(self, model):
        return {"str": "".join(chr(model.eval(c, model_completion=True).as_long()) if not isinstance(c, int) else chr(c) for c in self.chars)}


class SymDict(dict):
    """dict whose lookup forks on equality of a symbolic key (SChars) with the existing keys"""

    def _find(self, k):
        if isinstance(k, str) and getattr(k, "__sym__", None) is None and TOKL in k:
            # a plain string that embeds a symbolic one (f-string / concatenation result): outside the string model
            raise core.Unsupported("dictionary lookup with a formatted string that embeds a symbolic string")
        for kk in dict.keys(self):
            if len(kk) == len(k) and bool(k == kk):
                return kk
        return None

    def __getitem__(self, k):
        if isinstance(k, SChars):
            kk = self._find(k)
            if kk is None:
                raise KeyError(k)
            return dict.__getitem__(self, kk)
        return dict.__getitem__(self, k)

    def __contains__(self, k):
        if isinstance(k, SChars):
            return self._find(k) is not None
        return dict.__contains__(self, k)

    def get(self, k, default=None):
        if isinstance(k, SChars):
            kk = self._find(k)
            return default if kk is None else dict.__getitem__(self, kk)
        return dict.get(self, k, default)


def field_equals(ctx, field, given):
    """does the text `field` (taken from an emitted record) equal the argument `given`?  -> True / False / SBool.
    A prefix slice of an abstract string equals the string exactly when the string is not longer than the slice."""
    if not getattr(ctx, "symbolic", False) or not isinstance(given, SAbsStr):
        return field == str.__str__(given)
    if field == str.__str__(given):
        return True
    obj = ctx.tokens.get(field, (None,))[0]
    if isinstance(obj, SAbsStr) and obj.parent is given and hasattr(obj, "stop"):
        return core.SBool(ctx, given.L <= obj.stop)
    return False
