"""Model of a small regular-expression subset on character vectors (SChars), built from the pattern *string* of the
compiled regex found in the imported module.  Supported: ^ ( class quantifier )... $ with class in {[a-zA-Z] style
ranges, \\d} and quantifier + or +? ; the classes of adjacent groups must be disjoint (then the split is unique and
greedy/lazy coincide).  Anything else -> Unsupported (inconclusive).  Concrete strings are delegated to `re`."""
import re

import z3

from . import core
from .strings import SChars


class SymMatch:
    def __init__(self, groups):
        self._g = groups

    def group(self, i):
        return self._g[i - 1]

    def groups(self):
        return tuple(self._g)


def _parse_class(pat, i):
    """-> (list of (lo, hi) code ranges, next index)"""
    if pat.startswith("\\d", i):
        return [(48, 57)], i + 2
    if pat[i] == "[":
        j = pat.index("]", i)
        body = pat[i + 1:j]
        if body.startswith("^") or "\\" in body:
            raise ValueError("unsupported class")
        rngs, k = [], 0
        while k < len(body):
            if k + 2 < len(body) and body[k + 1] == "-":
                rngs.append((ord(body[k]), ord(body[k + 2])))
                k += 3
            else:
                rngs.append((ord(body[k]), ord(body[k])))
                k += 1
        return rngs, j + 1
    raise ValueError("unsupported atom")


def parse(pattern):
    if not (pattern.startswith("^") and pattern.endswith("$")):
        raise ValueError("pattern must be anchored")
    body = pattern[1:-1]
    groups, i = [], 0
    while i < len(body):
        if body[i] != "(":
            raise ValueError("only a sequence of groups is supported")
        rngs, j = _parse_class(body, i + 1)
        if body.startswith("+?)", j):
            j += 3
        elif body.startswith("+)", j):
            j += 2
        else:
            raise ValueError("unsupported quantifier")
        groups.append(rngs)
        i = j
    for a, b in zip(groups, groups[1:]):
        if any(not (h1 < l2 or h2 < l1) for l1, h1 in a for l2, h2 in b):
            raise ValueError("adjacent classes overlap")
    return groups


class SymPattern:
    def __init__(self, real):
        self.real = real
        self.pattern = real.pattern
        try:
            self.groups = parse(real.pattern)
            self.err = None
        except ValueError as ex:
            self.groups, self.err = None, str(ex)

    def _in(self, ch, rngs):
        return z3.Or(*[z3.And(ch >= lo, ch <= hi) for lo, hi in rngs])

    def match(self, s):
        if not isinstance(s, SChars):
            return self.real.match(s)
        e = s.eng
        if self.groups is None:
            e._raise(core.Unsupported(f"regex model: {self.err} in {self.pattern!r}"))
        n, k = len(s.chars), len(self.groups)
        if k != 2:
            e._raise(core.Unsupported("regex model: exactly two groups supported"))
        # a trailing newline before $ would also match in Python; the alphabet of well ids excludes it in the harness
        for p in range(1, n):
            cond = z3.And(*[self._in(c, self.groups[0]) for c in s.chars[:p]], *[self._in(c, self.groups[1]) for c in s.chars[p:]])
            if e.branch(cond):
                return SymMatch([s[:p], s[p:]])
        return None

    def fullmatch(self, s):
        return self.match(s)


def selftest():
    """differential test of the model's parser against `re` on all strings up to length 3 over a small alphabet"""
    import itertools

    pat = re.compile(r"^([a-zA-Z]+?)(\d+?)$")
    groups = parse(pat.pattern)
    alphabet = "aZz09A;_ 1Bb"
    bad = 0
    for n in range(0, 4):
        for tup in itertools.product(alphabet, repeat=n):
            s = "".join(tup)
            m = pat.match(s)
            mine = None
            for p in range(1, len(s)):
                if all(any(lo <= ord(c) <= hi for lo, hi in groups[0]) for c in s[:p]) and all(any(lo <= ord(c) <= hi for lo, hi in groups[1]) for c in s[p:]):
                    mine = (s[:p], s[p:])
                    break
            if (m.groups() if m else None) != mine:
                bad += 1
    return bad
