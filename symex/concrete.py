"""Concrete context: the same harness code that runs symbolically is re-run on plain numbers with the
real numpy and the unmodified robotools (no z3, no stand-in) to replay a solver counterexample."""
import math
import os
import sys
from fractions import Fraction

from symex import hygiene

REPO = os.environ.get("VERIF_REPO", "/repo")


class ReplayMismatch(Exception):
    pass


def _val(v):
    if v is None:
        raise ReplayMismatch("missing value")
    if "sel" in v:
        return v["sel"]
    if "frac" in v:
        return float(Fraction(v["frac"][0], v["frac"][1]))
    if "float" in v:
        s = v["float"]
        if s in ("nan", "inf", "-inf"):
            return float(s)
        return float.fromhex(s)
    if "int" in v:
        return int(v["int"])
    if "bool" in v:
        return bool(v["bool"])
    if "str" in v:
        return v["str"]
    raise ReplayMismatch(f"unknown value {v}")


class ConcreteCtx:
    symbolic = False
    mode = "concrete"

    def __init__(self, witness):
        self.choices = list(witness.get("choices") or [])
        self.values = witness.get("values") or {}
        self.failed = []
        self.checked = 0
        self.reached = set()
        self.ctx = {}
        self.tokens = {}
        self.int_lo, self.int_hi = -10**9, 10**9
        self.exact = witness.get("mode") == "fp"   # bit-precise models are replayed without any float-noise slack
        if REPO not in sys.path:
            sys.path.insert(0, REPO)
        sys.dont_write_bytecode = True
        import numpy

        self.np = numpy

    # ---- inputs
    def real(self, name, lo=None, hi=None, nan=False):
        return _val(self.values.get(name))

    def int(self, name, lo=None, hi=None):
        return _val(self.values.get(name))

    def bool(self, name):
        return _val(self.values.get(name))

    def absstr(self, name, maxlen=40):
        return _val(self.values.get(name))

    def chars(self, name, length, lo=32, hi=255):
        return _val(self.values.get(name))

    def choose(self, name, options):
        options = list(options)
        if not self.choices:
            raise ReplayMismatch(f"no recorded choice left for {name}")
        n, d = self.choices.pop(0)
        if n != name:
            raise ReplayMismatch(f"choice order mismatch: recorded {n}, asked {name}")
        return options[d]

    def assume(self, cond):
        if not bool(cond):
            raise ReplayMismatch("replayed values violate an assumption of the harness")

    # ---- obligations
    def reach(self, label):
        self.reached.add(label)

    def prove(self, prop, label, known=(), info=None):
        self.checked += 1
        ok = bool(prop)
        if not ok:
            self.failed.append(dict(label=label, info=info))
        return ok

    def violate(self, label, info=None):
        self.checked += 1
        self.failed.append(dict(label=label, info=info))
        return False

    # ---- combinators (tolerant of float noise in the direction of *not* reporting)
    def _slack(self, a, b):
        if self.exact:
            return 0.0
        return 1e-9 * (1.0 + abs(a) + abs(b))

    def all_of(self, conds):
        return all(bool(c) for c in conds)

    def any_of(self, conds):
        return any(bool(c) for c in conds)

    def implies(self, a, b):
        return (not bool(a)) or bool(b)

    def not_(self, a):
        return not bool(a)

    def eq(self, a, b):
        if isinstance(a, float) or isinstance(b, float) or hasattr(a, "dtype") or hasattr(b, "dtype"):
            a, b = float(a), float(b)
            if math.isnan(a) or math.isnan(b):
                return False
            return abs(a - b) <= self._slack(a, b)
        return a == b

    def le(self, a, b):
        a, b = float(a), float(b)
        if math.isnan(a) or math.isnan(b):
            return False
        return a <= b + self._slack(a, b)

    def lt(self, a, b):
        a, b = float(a), float(b)
        return a < b + self._slack(a, b)

    def within(self, a, b, tol):
        a, b, tol = float(a), float(b), float(tol)
        if math.isnan(a) or math.isnan(b):
            return False
        return abs(a - b) <= tol + self._slack(a, b)

    def finite(self, a):
        a = float(a)
        return not (math.isnan(a) or math.isinf(a))

    def ite(self, c, a, b):
        return a if bool(c) else b

    def is_true(self, c):
        return bool(c)

    def div(self, a, b):
        return float(a) / float(b) if float(b) != 0 else 0.0

    # ---- record fields
    def field(self, text):
        """numeric record field -> (value as written, exact value or None)"""
        return float(text), None

    def int_field(self, text):
        return int(text)


class EnumCtx(ConcreteCtx):
    """exhaustive enumeration of the structural choices of a purely concrete shard (no symbolic inputs), on the real code with real numpy"""

    def __init__(self, prefix):
        super().__init__(dict(choices=[], values={}))
        self.prefix = list(prefix)
        self.decisions = []
        self.pending = []
        self.exact = True

    def choose(self, name, options):
        options = list(options)
        i = len(self.decisions)
        if i < len(self.prefix):
            d = self.prefix[i]
        else:
            d = 0
            for alt in range(len(options) - 1, 0, -1):
                self.pending.append(self.decisions + [alt])
        self.decisions.append(d)
        self.choices.append([name, d])
        return options[d]

    def _nosym(self, *a, **k):
        raise ReplayMismatch("a concrete shard asked for a symbolic input")

    real = int = bool = absstr = chars = _nosym


def enumerate_shard(H, params):
    """-> dict(paths, failed=[{label, info, choices}], reached=[...])"""
    work = [[]]
    paths, failed, reached = 0, [], set()
    while work:
        prefix = work.pop()
        ctx = EnumCtx(prefix)
        hygiene.reset_process_state()
        try:
            res = H.scenario(ctx, params)
            outcome = ("ok", res)
        except ReplayMismatch:
            raise
        except Exception as ex:  # noqa: BLE001
            outcome = ("exc", ex)
        H.judge(ctx, params, outcome)
        work.extend(ctx.pending)
        paths += 1
        reached |= ctx.reached
        for f in ctx.failed:
            failed.append(dict(label=f["label"], info=f.get("info"), choices=[list(c) for c in ctx.choices]))
    return dict(paths=paths, failed=failed, reached=sorted(reached))
