"""If-conversion: `if c: <assignments to local names>` becomes a merge `x = ite(c, new, old)` when `c` is symbolic at run
time (a concrete `c` keeps the original control flow).  The rewrite is regenerated from the function's current source on
every run; an `if` that cannot be converted is left as it is (its symbolic condition then forks as usual)."""
import ast
import inspect
import textwrap

from . import core


class _IfConv(ast.NodeTransformer):
    def __init__(self):
        self.n = 0
        self.converted = 0
        self.kept = 0

    def visit_If(self, node):
        self.generic_visit(node)
        if node.orelse:
            self.kept += 1
            return node
        targets = []
        for st in node.body:
            if isinstance(st, ast.AugAssign) and isinstance(st.target, ast.Name):
                targets.append(st.target.id)
            elif isinstance(st, ast.Assign) and len(st.targets) == 1 and isinstance(st.targets[0], ast.Name):
                targets.append(st.targets[0].id)
            else:
                self.kept += 1
                return node
        self.n += 1
        self.converted += 1
        c = f"__c{self.n}"
        lines = [f"{c} = ({ast.unparse(node.test)})", f"if __is_sym({c}):"]
        olds = {t: f"__old{self.n}_{t}" for t in dict.fromkeys(targets)}
        for t, o in olds.items():
            lines.append(f"    {o} = {t}")
        for st in node.body:
            lines.append("    " + ast.unparse(st))
        for t, o in olds.items():
            lines.append(f"    {t} = __ite({c}, {t}, {o})")
        lines.append("else:")
        lines.append(f"    if {c}:")
        for st in node.body:
            lines.append("        " + ast.unparse(st))
        return ast.parse("\n".join(lines)).body


def ifconvert(fn, extra=None):
    src = textwrap.dedent(inspect.getsource(fn))
    tr = _IfConv()
    tree = tr.visit(ast.parse(src))
    ast.fix_missing_locations(tree)
    g = dict(fn.__globals__)
    g["__is_sym"] = lambda c: isinstance(c, core.SBool)
    g["__ite"] = core.ite
    g.update(extra or {})
    exec(compile(tree, f"<ifconv {fn.__name__}>", "exec"), g)
    new = g[fn.__name__]
    new.__ifconv__ = dict(converted=tr.converted, kept=tr.kept)
    return new
