"""symex.core - symbolic proxies and depth-first path exploration by re-execution.

The code under test (the real robotools functions) runs on proxy values that carry z3 terms.
Every data-dependent branch (``bool(SBool)``) is decided by the SMT solver under the current path
condition; when both sides are feasible the alternative is queued and explored by running the harness
again with a longer decision prefix.  At the end of each path the harness states obligations
(``Engine.prove``) that the solver must show valid under the path condition.

Two float modes:
  real : python/numpy floats are modelled as exact reals (LRA/NRA)
  fp   : IEEE-754 binary64 with round-to-nearest-even (bit precise; expensive)
"""
import itertools
import math
import struct
import time
from fractions import Fraction

import z3

F64 = z3.Float64()
RNE = z3.RNE()
EPS = z3.RealVal("1/1000000")   # witnesses are preferably taken this far inside every rounding cell (float replay robustness)


# --------------------------------------------------------------------------------------------------
# control-flow signals (BaseException: must not be caught by `except Exception` in the code under test)
class Signal(BaseException):
    pass


class PathAbort(Signal):
    """the path left the stated bounds (recorded as outside the claim)"""


class Infeasible(Signal):
    """the path condition became unsatisfiable"""


class Unsupported(Signal):
    """the code observed a symbolic value in a way the proxies do not model (inconclusive)"""


class SolverUnknown(Signal):
    """the solver could not decide a branch (inconclusive)"""


class NonFinite(Signal):
    """a numpy-scalar division whose divisor can be zero: the real code yields nan/inf here"""


def _s(r):
    return str(r)


import os as _os
_SLOWDUMP = _os.environ.get("VERIF_SLOWDUMP")
_MAXVIOL = int(_os.environ.get("VERIF_MAX_VIOL", "60"))
_XDUMP = _os.environ.get("VERIF_XDUMP")          # directory: sample of obligation queries for the second-solver cross-check
_XEVERY = int(_os.environ.get("VERIF_XEVERY", "97"))
_XMAX = int(_os.environ.get("VERIF_XMAX", "400"))


class Engine:
    def __init__(self, mode="real", rlimit=30_000_000, timeout_ms=120_000, int_lo=-2, int_hi=8, lazy=False, seed=0, known=()):
        self.mode = mode
        self.rlimit = rlimit
        self.timeout_ms = timeout_ms
        self.int_lo, self.int_hi = int_lo, int_hi
        self.lazy = lazy
        self.seed = seed
        self.known = set(known)  # ids of known findings whose regions are excluded from violation queries
        self.stats = dict(
            paths=0, ok=0, exc=0, aborted=0, unsupported=0, unknown_paths=0, nonfinite=0, infeasible=0,
            branches=0, forks=0, solver_calls=0, solver_s=0.0, obligations=0, discharged=0, violated=0,
            unknown=0, trivial=0, known_hits=0, nontrivial_paths=0,
        )
        self.violations = []
        self.spill = None
        self.label_counts = {}
        self.unknowns = []
        self.samples = []
        self.reached = set()  # witness labels (vacuity guard)
        self.known_seen = {}
        self._fresh = itertools.count()

    # ---------------------------------------------------------------- per-path state
    def _begin(self, prefix):
        self.prefix = prefix
        self.decisions = []
        self.decided = {}
        self.pending = []
        self.solver = z3.Solver()
        self.solver.set("rlimit", self.rlimit)
        self.solver.set("timeout", self.timeout_ms)
        self.solver.set("random_seed", self.seed)
        self.pc = []
        self.inputs = {}       # name -> (kind, term/obj)
        self.tokens = {}       # token -> (value, spec)
        self.choices = []      # [(name, index)] structural choices in order
        if not hasattr(self, "choice_offered"):
            self.choice_offered, self.choice_seen = {}, set()   # vacuity guard: every offered option must be feasible somewhere in the shard
        self.ctx = {}
        self.memo = {}
        self.margins = []
        self._signal = None
        self._model = None
        self._path_obl = 0
        self._sym_branches = 0

    def _raise(self, sig):
        self._signal = sig
        raise sig

    def check(self, *extra):
        t = time.time()
        if _SLOWDUMP:
            open(_SLOWDUMP, "w").write(self.solver.sexpr() + "".join(f"(assert {e.sexpr()})\n" for e in extra) + "(check-sat)\n")
        r = self.solver.check(*extra)
        self.stats["solver_calls"] += 1
        self.stats["solver_s"] += time.time() - t
        if _s(r) == "sat" and not extra:
            self._model = self.solver.model()
        if _s(r) == "unknown":
            import os
            d = os.environ.get("VERIF_DUMP")
            if d:
                n = len(os.listdir(d))
                open(os.path.join(d, f"unk{n}.smt2"), "w").write(self.solver.sexpr() + "".join(f"(assert {e.sexpr()})\n" for e in extra) + "(check-sat)\n")
            r = self._recheck(extra)
        return _s(r)

    def _recheck(self, extra):
        """an `unknown` is retried once on a fresh solver with a larger budget and the other arithmetic core"""
        for cfg in ({"smt.arith.solver": 2}, {"smt.arith.solver": 6}):
            s = z3.Solver()
            s.set("rlimit", self.rlimit * 10)
            s.set("timeout", self.timeout_ms)
            for k, v in cfg.items():
                s.set(k, v)
            s.add(self.solver.assertions())
            s.add(*extra)
            t = time.time()
            r = s.check()
            self.stats["solver_calls"] += 1
            self.stats["solver_s"] += time.time() - t
            if _s(r) != "unknown":
                self.stats["rechecked"] = self.stats.get("rechecked", 0) + 1
                return r
        return r

    def add(self, term):
        self.solver.add(term)
        self.pc.append(term)
        self._model = None

    def assume(self, cond):
        cond = as_term(cond)
        if isinstance(cond, bool):
            if not cond:
                self._raise(Infeasible())
            return
        cond = z3.simplify(cond)
        if z3.is_true(cond):
            return
        if z3.is_false(cond):
            self._raise(Infeasible())
        self.add(cond)

    def feasible(self):
        r = self.check()
        if r == "unknown":
            self._raise(SolverUnknown("path feasibility"))
        return r == "sat"

    def _eval_model(self, term):
        if self._model is None:
            return None
        try:
            v = self._model.eval(term, model_completion=True)
        except z3.Z3Exception:
            return None
        if z3.is_true(v):
            return True
        if z3.is_false(v):
            return False
        return None

    def branch(self, term):
        """Decide a symbolic boolean on the current path (fork point)."""
        term = z3.simplify(term)
        if z3.is_true(term):
            return True
        if z3.is_false(term):
            return False
        tid = term.get_id()
        if tid in self.decided:
            return self.decided[tid][0]
        # the negation may have been decided already
        nt = z3.simplify(z3.Not(term))
        if nt.get_id() in self.decided:
            return not self.decided[nt.get_id()][0]
        i = len(self.decisions)
        self.stats["branches"] += 1
        self._sym_branches += 1
        if i < len(self.prefix):
            d = self.prefix[i]
        elif self.lazy:
            d = True
            self.pending.append(self.decisions + [False])
        else:
            hint = self._eval_model(term)
            if hint is None:
                r = self.check()
                if r == "unknown":
                    self._raise(SolverUnknown("pc"))
                if r == "unsat":
                    self._raise(Infeasible())
                hint = self._eval_model(term)
                if hint is None:
                    hint = True
                    rt = self.check(term)
                    if rt == "unknown":
                        self._raise(SolverUnknown(str(term)[:200]))
                    if rt == "unsat":
                        hint = False
            other = z3.Not(term) if hint else term
            ro = self.check(other)
            if ro == "unknown":
                self._raise(SolverUnknown(str(term)[:200]))
            d = hint
            if ro == "sat":
                self.pending.append(self.decisions + [not hint])
                self.stats["forks"] += 1
        self.decisions.append(d)
        c = term if d else nt
        keep_model = self._model is not None and self._eval_model(c) is True
        m = self._model
        self.add(c)
        if keep_model:
            self._model = m
        self.decided[tid] = (d, term, nt)
        return d

    def choose(self, name, options):
        """Structural (concrete) choice: forks without the solver.  This is a *bound*, like an unrolling."""
        options = list(options)
        i = len(self.decisions)
        if i < len(self.prefix):
            d = self.prefix[i]
        else:
            d = 0
            for alt in range(len(options) - 1, 0, -1):
                self.pending.append(self.decisions + [alt])
        self.decisions.append(d)
        self.choices.append((name, d))
        for k in range(len(options)):
            self.choice_offered.setdefault((name, k), repr(options[k])[:60])
        return options[d]

    def concretize_int(self, term, lo=None, hi=None):
        """Fork over the feasible values of an Int term within [lo, hi]; the remainder is one aborted path."""
        lo = self.int_lo if lo is None else lo
        hi = self.int_hi if hi is None else hi
        term = z3.simplify(term)
        if z3.is_int_value(term):
            return term.as_long()
        i = len(self.decisions)
        if i < len(self.prefix):
            d = self.prefix[i]
        else:
            feas = []
            for k in range(lo, hi + 1):
                r = self.check(term == k)
                if r == "unknown":
                    self._raise(SolverUnknown("concretize"))
                if r == "sat":
                    feas.append(k)
            r = self.check(z3.Or(term < lo, term > hi))
            if r == "unknown":
                self._raise(SolverUnknown("concretize"))
            cands = feas + (["oob"] if r == "sat" else [])
            if not cands:
                self._raise(Infeasible())
            d = cands[0]
            for alt in reversed(cands[1:]):
                self.pending.append(self.decisions + [alt])
        self.decisions.append(d)
        if d == "oob":
            self.add(z3.Or(term < lo, term > hi))
            self._raise(PathAbort(f"int outside [{lo},{hi}]"))
        self.add(term == d)
        return d

    # ---------------------------------------------------------------- symbolic inputs
    def real(self, name, lo=None, hi=None, nan=False):
        if self.mode == "fp":
            t = z3.FP(name, F64)
            if not nan:
                self.solver.add(z3.Not(z3.fpIsNaN(t)))
        else:
            t = z3.Real(name)
        self.inputs[name] = ("real", t)
        v = SFloat(self, t)
        if lo is not None:
            self.assume(v >= lo)
        if hi is not None:
            self.assume(v <= hi)
        return v

    def int(self, name, lo=None, hi=None):
        t = z3.Int(name)
        self.inputs[name] = ("int", t)
        v = SInt(self, t)
        if lo is not None:
            self.add(t >= lo)
        if hi is not None:
            self.add(t <= hi)
        return v

    def bool(self, name):
        t = z3.Bool(name)
        self.inputs[name] = ("bool", t)
        return SBool(self, t)

    def register(self, name, kind, obj):
        self.inputs[name] = (kind, obj)

    symbolic = True

    # ---------------------------------------------------------------- obligations
    def reach(self, label):
        self.reached.add(label)

    def prove(self, prop, label, known=(), info=None):
        """Obligation: `prop` must hold for every model of the current path condition."""
        prop = as_term(prop)
        if isinstance(prop, bool):
            if prop:
                self.stats["trivial"] += 1
                return True
            prop = z3.BoolVal(False)
        self.stats["obligations"] += 1
        self._path_obl += 1
        neg = z3.Not(prop)
        excl = [z3.Not(as_term(reg)) for kid, reg in known if kid in self.known]
        for kid, reg in known:
            if kid in self.known and kid not in self.known_seen:
                if self.check(neg, as_term(reg)) == "sat":
                    self.known_seen[kid] = label
                    self.stats["known_hits"] += 1
        r = self.check(neg, *excl)
        if _XDUMP and self.stats["obligations"] % _XEVERY == 1:
            import os
            n = len(os.listdir(_XDUMP))
            if n < _XMAX:
                tmp = z3.Solver()
                tmp.add(self.solver.assertions())
                tmp.add(neg, *excl)
                with open(os.path.join(_XDUMP, f"q{os.getpid()}_{n}.smt2"), "w") as f:
                    f.write(f"; z3-verdict: {r}\n(set-logic ALL)\n" + tmp.sexpr() + "(check-sat)\n")
        if r == "unknown":
            r = self._retry(neg, excl)
        if r == "unsat":
            self.stats["discharged"] += 1
            return True
        if r == "sat":
            self.stats["violated"] += 1
            self._record_violation(label, info, [neg] + excl)
            return False
        self.stats["unknown"] += 1
        if len(self.unknowns) < 20:
            self.unknowns.append(dict(label=label, reason=self.solver.reason_unknown()))
        return None

    def _retry(self, neg, excl):
        s = z3.Solver()
        s.set("rlimit", self.rlimit * 4)
        s.set("timeout", self.timeout_ms)
        s.add(self.solver.assertions())
        s.add(neg, *excl)
        t = time.time()
        r = _s(s.check())
        self.stats["solver_calls"] += 1
        self.stats["solver_s"] += time.time() - t
        if r == "sat":
            # re-establish the model on the main solver for witness extraction
            r2 = self.check(neg, *excl)
            return r2 if r2 != "unknown" else "unknown"
        return r

    def violate(self, label, info=None):
        """A concrete (path-level) violation: the path itself is the counterexample."""
        self.stats["obligations"] += 1
        self.stats["violated"] += 1
        self._record_violation(label, info, [])
        return False

    def _record_violation(self, label, info, extra):
        if self.interior_status(extra) == "boundary-only":
            # exists only within 1e-6 of a rounding boundary of exact arithmetic: float rounding is outside a Real-mode claim
            self.stats["violated"] -= 1
            self.stats["boundary_only"] = self.stats.get("boundary_only", 0) + 1
            return
        n = self.label_counts.get(label, 0)
        self.label_counts[label] = n + 1
        if n < 2 and len(self.violations) < 30:   # at most two witnesses per distinct claim
            v = dict(label=label, info=info, witness=self.witness(extra))
            self.violations.append(v)
            if self.spill:   # survive a shard timeout: the driver reads what was found so far
                import json as _json
                with open(self.spill, "a") as f:
                    f.write(_json.dumps(v, default=str) + "\n")

    def interior_status(self, extra):
        """'interior' if the refutation has a model at least EPS inside every rounding cell of this path, 'boundary-only' if it
        provably has none (it exists only within EPS of a rounding boundary of exact real arithmetic), 'n/a' otherwise"""
        if self.mode != "real" or not self.margins:
            return "n/a"
        self.solver.push()
        try:
            self.solver.add(*extra)
            self.solver.add(*self.margins)
            r = self.check()
            return {"sat": "interior", "unsat": "boundary-only"}.get(r, "n/a")
        finally:
            self.solver.pop()

    def witness(self, extra):
        """Concrete values for all registered inputs (prefers interior, 'nice' dyadic values for exact float replay)."""
        self.solver.push()
        try:
            for e in extra:
                self.solver.add(e)
            model = None
            if self.mode == "real":
                reals = [(name, t) for name, (kind, t) in self.inputs.items() if kind == "real"]
                if reals:
                    for use_margin in ((True, False) if self.margins else (False,)):
                        for den in (4, 64, 1000, 2 ** 20, None):   # prefer values that are exact (or well separated) as floats
                            if den is None and not use_margin:
                                continue
                            self.solver.push()
                            self.solver.set("timeout", 3000)
                            if den is not None:
                                self.solver.add(*[t * den == z3.ToReal(z3.Int(f"nice!{den}!{name}")) for name, t in reals])
                            if use_margin:
                                self.solver.add(*self.margins)
                            t0 = time.time()
                            r = _s(self.solver.check())
                            self.stats["solver_s"] += time.time() - t0
                            if r == "sat":
                                model = self.solver.model()
                            self.solver.pop()
                            self.solver.set("timeout", self.timeout_ms)
                            if model is not None:
                                break
                        if model is not None:
                            break
            if model is None:
                r = _s(self.solver.check())
                if r != "sat":
                    return dict(choices=list(self.choices), values=None, note=f"model extraction {r}")
                model = self.solver.model()
            values = {}
            for name, (kind, t) in self.inputs.items():
                values[name] = self._value(model, kind, t)
            return dict(choices=[list(c) for c in self.choices], values=values, mode=self.mode)
        finally:
            self.solver.pop()

    def _value(self, model, kind, t):
        if kind == "real":
            if self.mode == "fp":
                if z3.is_true(model.eval(z3.fpIsNaN(t), model_completion=True)):
                    return {"float": "nan"}   # the bit pattern of a NaN is unspecified under fp.to_ieee_bv
                bvv = model.eval(z3.fpToIEEEBV(t), model_completion=True)
                bits = bvv.as_long()
                f = struct.unpack("<d", struct.pack("<Q", bits))[0]
                if math.isnan(f):
                    return {"float": "nan"}
                if math.isinf(f):
                    return {"float": "inf" if f > 0 else "-inf"}
                return {"float": f.hex()}
            v = model.eval(t, model_completion=True)
            if z3.is_algebraic_value(v):
                v = v.approx(20)
            fr = Fraction(v.numerator_as_long(), v.denominator_as_long())
            return {"frac": [fr.numerator, fr.denominator]}
        if kind == "int":
            return {"int": model.eval(t, model_completion=True).as_long()}
        if kind == "bool":
            return {"bool": z3.is_true(model.eval(t, model_completion=True))}
        if kind == "obj":
            return t.concretize(model)
        raise AssertionError(kind)

    # ---------------------------------------------------------------- harness API shared with ConcreteCtx
    @property
    def np(self):
        from . import npshim
        return npshim

    def absstr(self, name, maxlen=40):
        from .strings import SAbsStr
        return SAbsStr(self, name, maxlen)

    def chars(self, name, length, lo=32, hi=255):
        from .strings import SChars
        return SChars.fresh(self, name, length, lo, hi)

    def all_of(self, conds):
        ts = []
        for c in conds:
            c = as_term(c)
            if isinstance(c, bool):
                if not c:
                    return False
                continue
            ts.append(c)
        if not ts:
            return True
        return SBool(self, z3.And(*ts))

    def any_of(self, conds):
        ts = []
        for c in conds:
            c = as_term(c)
            if isinstance(c, bool):
                if c:
                    return True
                continue
            ts.append(c)
        if not ts:
            return False
        return SBool(self, z3.Or(*ts))

    def not_(self, a):
        a = as_term(a)
        if isinstance(a, bool):
            return not a
        return SBool(self, z3.Not(a))

    def implies(self, a, b):
        return self.any_of([self.not_(a), b])

    def eq(self, a, b):
        r = a == b
        return r

    def le(self, a, b):
        return a <= b

    def lt(self, a, b):
        return a < b

    def within(self, a, b, tol):
        d = a - b
        return self.all_of([d <= tol, -d <= tol])

    def finite(self, a):
        if isinstance(a, SFloat) and self.mode == "fp":
            return SBool(self, z3.Not(z3.Or(z3.fpIsNaN(a.t), z3.fpIsInf(a.t))))
        if isinstance(a, float):
            return not (math.isnan(a) or math.isinf(a))
        return True

    def ite(self, c, a, b):
        return ite(c, a, b) if isinstance(c, SBool) else (a if c else b)

    def div(self, a, b):
        """oracle-side division without a zero branch (the caller guards the zero case with ite)"""
        if isinstance(a, (SFloat, SInt)) or isinstance(b, (SFloat, SInt)):
            if self.mode == "real":
                return SFloat(self, num_term(self, a) / num_term(self, b))
            return SFloat(self, z3.fpDiv(RNE, num_term(self, a), num_term(self, b)))
        return a / b if b != 0 else 0.0

    def is_true(self, c):
        """does the condition hold for every model of the path (no fork)?"""
        c = as_term(c)
        if isinstance(c, bool):
            return c
        return self.check(z3.Not(c)) == "unsat"

    def field(self, text):
        """numeric record field -> (value as written, exact pre-rounding value or None)"""
        if text in self.tokens:
            val, spec = self.tokens[text]
            return val, getattr(val, "orig", val)
        return float(text), None

    def int_field(self, text):
        if text in self.tokens:
            return self.tokens[text][0]
        return int(text)

    # ---------------------------------------------------------------- exploration
    def explore(self, prog, on_path, max_paths=2_000_000, sample_every=None):
        work = [[]]
        while work:
            prefix = work.pop()
            self._begin(prefix)
            outcome = None
            try:
                res = prog(self)
                outcome = ("ok", res)
            except PathAbort as e:
                outcome = ("abort", e)
            except Infeasible:
                outcome = None
                self.stats["infeasible"] += 1
            except Unsupported as e:
                outcome = ("unsupported", e)
            except SolverUnknown as e:
                outcome = ("unknown", e)
            except NonFinite as e:
                outcome = ("nonfinite", e)
            except Signal as e:  # pragma: no cover
                outcome = ("unsupported", e)
            except Exception as e:  # noqa: BLE001 - exceptions of the code under test are outcomes
                outcome = ("exc", e)
            except BaseException as e:  # noqa: BLE001
                if type(e).__name__ != "ShimUnsupported":
                    raise
                outcome = ("unsupported", e)
            if outcome is None:
                work.extend(self.pending)
                continue
            if isinstance(self._signal, PathAbort) and (outcome[0] in ("ok", "exc")):
                # a bound of the exploration was hit inside C code that turned the signal into an ordinary exception
                # (itertools.islice, range, ...): the path is outside the stated bound, exactly as if the signal had propagated
                outcome = ("abort", self._signal)
            elif self._signal is not None and (outcome[0] in ("ok", "exc")):
                outcome = ("unsupported", Unsupported(f"engine signal swallowed by the code under test: {self._signal!r}"))
            if self.lazy and outcome[0] in ("ok", "exc", "nonfinite"):
                r = self.check()
                if r == "unsat":
                    self.stats["infeasible"] += 1
                    work.extend(self.pending)
                    continue
                if r == "unknown":
                    outcome = ("unknown", SolverUnknown("lazy feasibility"))
            kind = outcome[0]
            self.stats["paths"] += 1
            for ch in self.choices:   # this structural choice led to at least one feasible, completed path
                self.choice_seen.add(tuple(ch))
            key = {"ok": "ok", "exc": "exc", "abort": "aborted", "unsupported": "unsupported", "unknown": "unknown_paths", "nonfinite": "nonfinite"}[kind]
            self.stats[key] += 1
            if kind == "unsupported" and len(self.unknowns) < 20:
                self.unknowns.append(dict(label="unsupported path", reason=str(outcome[1])[:300], choices=[list(c) for c in self.choices]))
            if kind == "unknown" and len(self.unknowns) < 20:
                self.unknowns.append(dict(label="solver unknown on branch", reason=str(outcome[1])[:300], choices=[list(c) for c in self.choices]))
            self._path_obl = 0
            try:
                on_path(self, outcome)
            except Infeasible:
                pass
            finally:
                work.extend(self.pending)
            if self._path_obl > 0:
                self.stats["nontrivial_paths"] += 1
            if len(self.samples) < 4 and kind in ("ok", "exc") and self._path_obl > 0 and (self.stats["paths"] % 7 == 1):
                self.samples.append(self.sample(outcome))
            if self.stats["paths"] >= max_paths:
                raise RuntimeError("max_paths exceeded")
            if self.stats["violated"] >= _MAXVIOL:
                self.stats["stopped_early"] = 1   # enough counterexamples: the shard stops (the verdict is already 'violated')
                break

    def sample(self, outcome):
        pcs = [str(c)[:160] for c in self.pc[-6:]]
        out = type(outcome[1]).__name__ if outcome[0] == "exc" else outcome[0]
        return dict(choices=[list(c) for c in self.choices], path_condition_tail=pcs, outcome=out, obligations=self._path_obl)


# --------------------------------------------------------------------------------------------------
def as_term(x):
    if isinstance(x, SBool):
        return x.t
    if isinstance(x, (bool,)):
        return x
    if x.__class__.__name__ in ("bool_", "bool"):
        return bool(x)
    return x


def is_sym(x):
    return isinstance(x, (SBool, SInt, SFloat))


class SBool:
    __sym__ = "bool"

    def __init__(self, eng, t):
        self.eng, self.t = eng, t

    def __bool__(self):
        return self.eng.branch(self.t)

    def __and__(self, o):
        o = as_term(o)
        if isinstance(o, bool):
            return self if o else False
        return SBool(self.eng, z3.And(self.t, o))

    __rand__ = __and__

    def __or__(self, o):
        o = as_term(o)
        if isinstance(o, bool):
            return True if o else self
        return SBool(self.eng, z3.Or(self.t, o))

    __ror__ = __or__

    def __invert__(self):
        return SBool(self.eng, z3.Not(self.t))

    def __eq__(self, o):
        o = as_term(o)
        if isinstance(o, bool):
            return self if o else ~self
        if isinstance(o, int):  # numpy: selected[y, x] == 1 on bool arrays
            return self if o == 1 else (~self if o == 0 else False)
        return SBool(self.eng, self.t == o)

    __hash__ = None

    def sym_ite(self, a, b):
        return ite(self, a, b)

    def __repr__(self):
        return f"<SBool {self.t}>"


def num_term(eng, x):
    """z3 term (Real or FP, by engine mode) for a python number / proxy"""
    if isinstance(x, SFloat):
        return x.t
    if isinstance(x, SInt):
        return z3.ToReal(x.t) if eng.mode == "real" else z3.fpToFP(RNE, z3.ToReal(x.t), F64)
    if isinstance(x, SBool):
        return z3.If(x.t, num_term(eng, 1), num_term(eng, 0))
    if isinstance(x, bool):
        x = int(x)
    if isinstance(x, int):
        if eng.mode == "real":
            return z3.RealVal(x)
        return z3.FPVal(float(x), F64)
    if isinstance(x, float):
        if eng.mode == "real":
            if math.isinf(x) or math.isnan(x):
                eng._raise(Unsupported("non-finite constant in real mode"))
            fr = Fraction(x)
            return z3.RealVal(fr.numerator) / z3.RealVal(fr.denominator) if fr.denominator != 1 else z3.RealVal(fr.numerator)
        return z3.FPVal(x, F64)
    if isinstance(x, Fraction):
        if eng.mode == "real":
            return z3.RealVal(x.numerator) / z3.RealVal(x.denominator)
        return z3.FPVal(float(x), F64)
    if hasattr(x, "item") and not isinstance(x, (str, bytes)):
        return num_term(eng, x.item())
    raise TypeError(f"cannot lift {type(x)}")


def lift(eng, x):
    return x if isinstance(x, SFloat) else SFloat(eng, num_term(eng, x))


class SFloat:
    """symbolic python float / numpy float64 (np=True: numpy scalar semantics for division by zero)"""

    __sym__ = "float"
    __array_priority__ = 1000

    def __init__(self, eng, t, np=False):
        self.eng, self.t, self.np = eng, t, np

    def as_np(self):
        if self.np:
            return self
        r = SFloat(self.eng, self.t, True)
        for a in ("orig", "quot"):
            if hasattr(self, a):
                setattr(r, a, getattr(self, a))
        return r

    def _isnp(self, o):
        return self.np or getattr(o, "np", False) or getattr(o, "__npscalar__", False)

    def _bin(self, o, fr, ff, swap=False):
        try:
            a, b = self.t, num_term(self.eng, o)
        except TypeError:
            return NotImplemented
        if swap:
            a, b = b, a
        if self.eng.mode == "real":
            return SFloat(self.eng, fr(a, b), self._isnp(o))
        return SFloat(self.eng, ff(a, b), self._isnp(o))

    def __add__(self, o):
        return self._bin(o, lambda a, b: a + b, lambda a, b: z3.fpAdd(RNE, a, b))

    def __radd__(self, o):
        return self._bin(o, lambda a, b: a + b, lambda a, b: z3.fpAdd(RNE, a, b), True)

    def __sub__(self, o):
        return self._bin(o, lambda a, b: a - b, lambda a, b: z3.fpSub(RNE, a, b))

    def __rsub__(self, o):
        return self._bin(o, lambda a, b: a - b, lambda a, b: z3.fpSub(RNE, a, b), True)

    def _mul(self, o, swap=False):
        if isinstance(o, SInt) and self.eng.mode == "real" and not _is_const(self.t) and not _is_const(o.t):
            o = o.__index__()  # keep products linear: concretise the symbolic int factor (bounded)
        return self._bin(o, lambda a, b: a * b, lambda a, b: z3.fpMul(RNE, a, b), swap)

    def __mul__(self, o):
        if isinstance(o, (list, tuple)) or hasattr(o, "_ew"):
            return NotImplemented
        return self._mul(o)

    def __rmul__(self, o):
        if isinstance(o, (list, tuple)) or hasattr(o, "_ew"):
            return NotImplemented
        return self._mul(o, True)

    def _div(self, o, swap=False):
        eng = self.eng
        if isinstance(o, SInt) and not _is_const(o.t):
            o = o.__index__()
        try:
            a, b = self.t, num_term(eng, o)
        except TypeError:
            return NotImplemented
        isnp = self._isnp(o)
        if swap:
            a, b = b, a
        if eng.mode == "fp":
            if not isnp:
                if eng.branch(z3.fpIsZero(b)):
                    raise ZeroDivisionError("float division by zero")
            r = SFloat(eng, z3.fpDiv(RNE, a, b), isnp)
            if not _is_const(b):
                r.fpquot = True
            return r
        iszero = b == z3.RealVal(0)
        if eng.branch(iszero):
            if isnp:
                eng._raise(NonFinite("numpy float64 division by zero (nan/inf in the real code)"))
            raise ZeroDivisionError("float division by zero")
        r = SFloat(eng, a / b, isnp)
        if not _is_const(b):
            r.quot = (a, b)
        return r

    def __truediv__(self, o):
        if hasattr(o, "_ew"):
            return NotImplemented
        return self._div(o)

    def __rtruediv__(self, o):
        return self._div(o, True)

    def __floordiv__(self, o):
        if self.eng.mode != "real":
            # python computes float // from the exact quotient (fmod based), not from the rounded one: not modelled bit-precisely
            self.eng._raise(Unsupported("float floor division in fp mode"))
        q = self / o
        if not isinstance(q, SFloat):
            return q
        n = math.floor(q)
        return lift(self.eng, n) + 0.0 if not isinstance(n, SInt) else SFloat(self.eng, z3.ToReal(n.t), self.np)

    def __rfloordiv__(self, o):
        if self.eng.mode != "real":
            self.eng._raise(Unsupported("float floor division in fp mode"))
        q = lift(self.eng, o) / self
        n = math.floor(q)
        return lift(self.eng, n) + 0.0 if not isinstance(n, SInt) else SFloat(self.eng, z3.ToReal(n.t), self.np)

    def _unsupported_op(self, *a, **k):
        self.eng._raise(Unsupported("arithmetic operator not modelled for symbolic floats (%, **, divmod, bit operations)"))

    __mod__ = __rmod__ = __pow__ = __rpow__ = __divmod__ = __rdivmod__ = _unsupported_op
    __lshift__ = __rshift__ = __and__ = __or__ = __xor__ = __rlshift__ = __rrshift__ = __rand__ = __ror__ = __rxor__ = _unsupported_op

    def __neg__(self):
        return SFloat(self.eng, -self.t if self.eng.mode == "real" else z3.fpNeg(self.t), self.np)

    def __pos__(self):
        return self

    def __abs__(self):
        if self.eng.mode == "real":
            return SFloat(self.eng, z3.If(self.t >= 0, self.t, -self.t), self.np)
        return SFloat(self.eng, z3.fpAbs(self.t), self.np)

    def _cmp(self, o, fr, ff):
        try:
            b = num_term(self.eng, o)
        except TypeError:
            return NotImplemented
        if self.eng.mode == "real":
            return SBool(self.eng, fr(self.t, b))
        return SBool(self.eng, ff(self.t, b))

    def __lt__(self, o):
        return self._cmp(o, lambda a, b: a < b, z3.fpLT)

    def __le__(self, o):
        return self._cmp(o, lambda a, b: a <= b, z3.fpLEQ)

    def __gt__(self, o):
        return self._cmp(o, lambda a, b: a > b, z3.fpGT)

    def __ge__(self, o):
        return self._cmp(o, lambda a, b: a >= b, z3.fpGEQ)

    def __eq__(self, o):
        if o is None or isinstance(o, str):
            return False
        return self._cmp(o, lambda a, b: a == b, z3.fpEQ)

    def __ne__(self, o):
        r = self.__eq__(o)
        return ~r if isinstance(r, SBool) else (not r if isinstance(r, bool) else r)

    def __hash__(self):
        # floats are hashable: all symbolic floats share one bucket, so a dict / set lookup is decided by == against the other
        # symbolic keys (forking on equality); a concrete key equal to the symbolic one is not found (documented limit)
        return 0x5F10A7

    def __bool__(self):
        return bool(self != 0)

    # ---- rounding family: fresh Int + defining inequalities (real mode)
    def _fresh_int(self, kind, lo_strict):
        eng = self.eng
        st = z3.simplify(self.t)
        key = (kind, st.get_id())
        if key in eng.memo:
            return eng.memo[key][0]
        n = z3.Int(f"{kind}!{next(eng._fresh)}")
        nr = z3.ToReal(n)
        if kind == "ceil":
            eng.add(z3.And(nr - 1 < self.t, self.t <= nr))
            eng.margins.append(z3.And(nr - 1 + EPS <= self.t, self.t <= nr - EPS))
        elif kind == "floor":
            eng.add(z3.And(nr <= self.t, self.t < nr + 1))
            eng.margins.append(z3.And(nr + EPS <= self.t, self.t <= nr + 1 - EPS))
        eng.memo[key] = (n, st)
        self._mono(kind, n, self.t)
        return n

    def _mono(self, kind, n, t):
        """monotonicity lemmas between the auxiliary integers of one path: t <= t' => n <= n'.  Without them z3's
        branch-and-bound does not terminate on queries such as x0 == x1 /\\ ceil(x0) > m >= ceil(x1)."""
        eng = self.eng
        lst = eng.memo.setdefault(("mono", kind), [])
        for (n2, t2) in lst:
            eng.solver.add(z3.Implies(t <= t2, n <= n2), z3.Implies(t2 <= t, n2 <= n))
        lst.append((n, t))

    def _fp_roundint(self, rm, what):
        """fp mode: ceil/floor.  With a symbolic divisor the result is concretised (bounded); otherwise it stays an
        integer-valued double (exact for |x| < 2**53, which the harness assumes)."""
        eng = self.eng
        r = z3.fpRoundToIntegral(rm, self.t)
        if getattr(self, "fpquot", False):
            lo, hi = eng.int_lo, eng.int_hi
            i = len(eng.decisions)
            if i < len(eng.prefix):
                d = eng.prefix[i]
            else:
                cands = list(range(lo, hi + 1)) + ["oob"]
                d = cands[0]
                for alt in reversed(cands[1:]):
                    eng.pending.append(eng.decisions + [alt])
            eng.decisions.append(d)
            if d == "oob":
                eng.add(z3.Or(z3.fpLT(r, z3.FPVal(float(lo), F64)), z3.fpGT(r, z3.FPVal(float(hi), F64)), z3.fpIsNaN(r)))
                eng._raise(PathAbort(f"{what}(quotient) outside the int bound"))
            eng.add(z3.fpEQ(r, z3.FPVal(float(d), F64)))
            return d
        out = SFloat(eng, r, False)
        out.intval = True
        return out

    def __ceil__(self):
        eng = self.eng
        if eng.mode != "real":
            return self._fp_roundint(z3.RTP(), "ceil")
        q = getattr(self, "quot", None)
        if q is not None:
            a, b = q
            rpos = eng.check(b <= 0)
            if rpos == "unsat":
                # ceil(a/b) with a symbolic positive divisor: concretise k by linear constraints (k-1)*b < a <= k*b
                lo, hi = eng.int_lo, eng.int_hi
                i = len(eng.decisions)
                if i < len(eng.prefix):
                    d = eng.prefix[i]
                else:
                    cands = []
                    for k in range(lo, hi + 1):
                        r = eng.check(z3.And((k - 1) * b < a, a <= k * b))
                        if r == "unknown":
                            eng._raise(SolverUnknown("ceil quotient"))
                        if r == "sat":
                            cands.append(k)
                    r = eng.check(z3.Or(a <= (lo - 1) * b, a > hi * b))
                    if r == "unknown":
                        eng._raise(SolverUnknown("ceil quotient"))
                    if r == "sat":
                        cands.append("oob")
                    if not cands:
                        eng._raise(Infeasible())
                    d = cands[0]
                    for alt in reversed(cands[1:]):
                        eng.pending.append(eng.decisions + [alt])
                eng.decisions.append(d)
                if d == "oob":
                    eng.add(z3.Or(a <= (lo - 1) * b, a > hi * b))
                    eng._raise(PathAbort("ceil(quotient) outside the int bound"))
                eng.add(z3.And((d - 1) * b < a, a <= d * b))
                eng.margins.append(z3.And((d - 1) * b + EPS * b <= a, a <= d * b - EPS * b))
                return d
        return SInt(eng, self._fresh_int("ceil", True))

    def __floor__(self):
        eng = self.eng
        if eng.mode != "real":
            return self._fp_roundint(z3.RTN(), "floor")
        q = getattr(self, "quot", None)
        if q is not None:
            a, b = q
            if eng.check(b <= 0) == "unsat":
                lo, hi = eng.int_lo, eng.int_hi
                i = len(eng.decisions)
                if i < len(eng.prefix):
                    d = eng.prefix[i]
                else:
                    cands = []
                    for k in range(lo, hi + 1):
                        r = eng.check(z3.And(k * b <= a, a < (k + 1) * b))
                        if r == "unknown":
                            eng._raise(SolverUnknown("floor quotient"))
                        if r == "sat":
                            cands.append(k)
                    r = eng.check(z3.Or(a < lo * b, a >= (hi + 1) * b))
                    if r == "unknown":
                        eng._raise(SolverUnknown("floor quotient"))
                    if r == "sat":
                        cands.append("oob")
                    if not cands:
                        eng._raise(Infeasible())
                    d = cands[0]
                    for alt in reversed(cands[1:]):
                        eng.pending.append(eng.decisions + [alt])
                eng.decisions.append(d)
                if d == "oob":
                    eng.add(z3.Or(a < lo * b, a >= (hi + 1) * b))
                    eng._raise(PathAbort("floor(quotient) outside the int bound"))
                eng.add(z3.And(d * b <= a, a < (d + 1) * b))
                eng.margins.append(z3.And(d * b + EPS * b <= a, a <= (d + 1) * b - EPS * b))
                return d
        return SInt(eng, self._fresh_int("floor", False))

    def sym_round(self, decimals=0):
        """numpy.round / round-half-even to `decimals` places; keeps a reference to the un-rounded operand"""
        eng = self.eng
        if eng.mode != "real":
            # fp mode: the rounded value is an opaque double (only formatted, never decided on); it remembers its operand
            out = SFloat(eng, z3.FP(f"round!{next(eng._fresh)}", F64), self.np)
            out.orig = self
            return out
        scale = 10 ** decimals
        st = z3.simplify(self.t * scale)
        key = ("round", st.get_id())
        if key in eng.memo:
            r = eng.memo[key][0]
        else:
            r = z3.Int(f"round!{next(eng._fresh)}")
            rr = z3.ToReal(r)
            half = z3.RealVal(1) / 2
            # nearest integer; at an exact tie either neighbour is allowed (sound over-approximation of
            # round-half-even that keeps `mod` out of the path condition; no oracle depends on the tie direction)
            eng.add(z3.And(rr - half <= st, st <= rr + half))
            eng.margins.append(z3.And(rr - half + EPS <= st, st <= rr + half - EPS))
            self._mono("round%d" % decimals, r, st)
            eng.memo[key] = (r, st)
        out = SFloat(eng, z3.ToReal(r) / scale, self.np)
        out.orig = self
        out.rint = r
        return out

    def __round__(self, n=None):
        r = self.sym_round(n or 0)
        if n is None:
            return SInt(self.eng, r.rint)
        return r

    def sym_isnan(self):
        if self.eng.mode == "real":
            return False
        return SBool(self.eng, z3.fpIsNaN(self.t))

    def sym_isinf(self):
        if self.eng.mode == "real":
            return False
        return SBool(self.eng, z3.fpIsInf(self.t))

    def __float__(self):
        self.eng._raise(Unsupported("symbolic float reached a C-level float() conversion"))

    def __trunc__(self):
        """int(x) / math.trunc(x): towards zero (one solver-decided branch on the sign)"""
        if self.eng.mode != "real":
            self.eng._raise(Unsupported("int() of a symbolic float in fp mode"))
        if bool(self >= 0):
            return math.floor(self)
        return math.ceil(self)

    def __int__(self):
        self.eng._raise(Unsupported("symbolic float reached a C-level int() conversion"))

    def __repr__(self):
        return f"<SFloat {self.t}>"

    def __format__(self, spec):
        return self.eng_token(spec)

    def __str__(self):
        return self.eng_token("")

    def eng_token(self, spec):
        reg = self.eng.tokens
        tok = f"⟦{len(reg)}⟧"
        reg[tok] = (self, spec)
        return tok

    def item(self):
        return self

    def copy(self):
        return self


def _is_const(t):
    t = z3.simplify(t)
    return z3.is_int_value(t) or z3.is_rational_value(t) or z3.is_fp_value(t)


class SInt:
    __sym__ = "int"

    def __init__(self, eng, t):
        self.eng, self.t = eng, t

    def _lift(self, o):
        if isinstance(o, SInt):
            return o.t
        if isinstance(o, SBool):
            return z3.If(o.t, 1, 0)
        if isinstance(o, bool):
            return z3.IntVal(int(o))
        if isinstance(o, int):
            return z3.IntVal(o)
        if o.__class__.__name__.startswith("int") and hasattr(o, "item"):
            return z3.IntVal(int(o))
        return None

    def _arith(self, o, f, swap=False):
        b = self._lift(o)
        if b is None:
            if isinstance(o, (float, SFloat, Fraction)):
                me = SFloat(self.eng, num_term(self.eng, self))
                ot = lift(self.eng, o)
                x, y = (ot, me) if swap else (me, ot)
                return f(x, y)
            return NotImplemented
        a = self.t
        if swap:
            a, b = b, a
        return SInt(self.eng, f(a, b))

    def __add__(self, o):
        return self._arith(o, lambda a, b: a + b)

    def __radd__(self, o):
        return self._arith(o, lambda a, b: a + b, True)

    def __sub__(self, o):
        return self._arith(o, lambda a, b: a - b)

    def __rsub__(self, o):
        return self._arith(o, lambda a, b: a - b, True)

    def __mul__(self, o):
        if isinstance(o, (list, tuple, str)):
            return o * self.__index__()
        if isinstance(o, SInt) and not _is_const(self.t) and not _is_const(o.t):
            o = o.__index__()
        if isinstance(o, SFloat):
            return o.__rmul__(self)
        return self._arith(o, lambda a, b: a * b)

    def __rmul__(self, o):
        if isinstance(o, (list, tuple, str)):
            return o * self.__index__()
        return self._arith(o, lambda a, b: a * b, True)

    def __floordiv__(self, o):
        if isinstance(o, SInt):
            o = o.__index__()
        if isinstance(o, int) and not isinstance(o, bool):
            if o == 0:
                raise ZeroDivisionError("integer division or modulo by zero")
            if o > 0:
                return SInt(self.eng, self.t / z3.IntVal(o))
            return SInt(self.eng, (-self.t) / z3.IntVal(-o))
        return NotImplemented

    def __mod__(self, o):
        if isinstance(o, SInt):
            o = o.__index__()
        if isinstance(o, int) and not isinstance(o, bool):
            if o == 0:
                raise ZeroDivisionError("integer division or modulo by zero")
            if o > 0:
                return SInt(self.eng, self.t % z3.IntVal(o))
        return NotImplemented

    def __rfloordiv__(self, o):
        return o // self.__index__()

    def __rmod__(self, o):
        return o % self.__index__()

    def _unsupported_op(self, *a, **k):
        self.eng._raise(Unsupported("arithmetic operator not modelled for symbolic ints (**, divmod, shifts, bit operations)"))

    __pow__ = __rpow__ = __divmod__ = __rdivmod__ = _unsupported_op
    __lshift__ = __rshift__ = __and__ = __or__ = __xor__ = __rlshift__ = __rrshift__ = __rand__ = __ror__ = __rxor__ = _unsupported_op

    def __truediv__(self, o):
        return SFloat(self.eng, num_term(self.eng, self)).__truediv__(o)

    def __rtruediv__(self, o):
        return lift(self.eng, o).__truediv__(SFloat(self.eng, num_term(self.eng, self)))

    def __neg__(self):
        return SInt(self.eng, -self.t)

    def __pos__(self):
        return self

    def __abs__(self):
        return SInt(self.eng, z3.If(self.t >= 0, self.t, -self.t))

    def _cmp(self, o, f):
        b = self._lift(o)
        if b is None:
            if isinstance(o, (float, SFloat, Fraction)):
                return getattr(SFloat(self.eng, num_term(self.eng, self)), f)(o)
            return NotImplemented
        return SBool(self.eng, getattr(self.t, f)(b))

    def __lt__(self, o):
        return self._cmp(o, "__lt__")

    def __le__(self, o):
        return self._cmp(o, "__le__")

    def __gt__(self, o):
        return self._cmp(o, "__gt__")

    def __ge__(self, o):
        return self._cmp(o, "__ge__")

    def __eq__(self, o):
        r = self._cmp(o, "__eq__")
        return False if r is NotImplemented else r

    def __ne__(self, o):
        r = self.__eq__(o)
        return ~r if isinstance(r, SBool) else not r

    def __hash__(self):
        return hash(self.__index__())

    def __bool__(self):
        return bool(self != 0)

    def __index__(self):
        return self.eng.concretize_int(self.t)

    __int__ = __index__

    def __float__(self):
        self.eng._raise(Unsupported("symbolic int reached a C-level float() conversion"))

    def __round__(self, n=None):
        return self

    def __ceil__(self):
        return self

    def __floor__(self):
        return self

    def __repr__(self):
        return f"<SInt {self.t}>"

    def __format__(self, spec):
        reg = self.eng.tokens
        tok = f"⟦{len(reg)}⟧"
        reg[tok] = (self, spec)
        return tok

    def __str__(self):
        return self.__format__("")

    def item(self):
        return self


def ite(c, a, b):
    """merge two values under a symbolic condition (if-conversion)"""
    if not isinstance(c, SBool):
        return a if c else b
    eng = c.eng
    if isinstance(a, str) or isinstance(b, str):
        eng._raise(Unsupported("string merge"))
    if isinstance(a, (SFloat, float)) or isinstance(b, (SFloat, float)):
        return SFloat(eng, z3.If(c.t, num_term(eng, a), num_term(eng, b)))
    if hasattr(a, "bvt") or hasattr(b, "bvt"):
        from . import bitint
        return bitint.BInt(eng, z3.If(c.t, bitint.bv(a), bitint.bv(b)))
    ia = a.t if isinstance(a, SInt) else z3.IntVal(int(a))
    ib = b.t if isinstance(b, SInt) else z3.IntVal(int(b))
    return SInt(eng, z3.If(c.t, ia, ib))
