"""Independent decoder of EVOware script commands (does not import robotools).

B;Aspirate(tipMask,"liquidClass",v1,...,v12,grid,site,spacing,"wellSelection",noOfLoopOptions,arm);
B;Dispense(... same ...)
B;Wash(tipMask,wasteGrid,wasteSite,cleanerGrid,cleanerSite,"wasteVol",wasteDelay,"cleanerVol",cleanerDelay,airgap,airgapSpeed,retractSpeed,fastWash,lowVolume,atFrequency,arm);

Well selection (EVOware manual, appendix "well selection string"): two hex digits number of columns, two hex digits number of rows,
then one character per 7 wells in column-major order, least significant bit first, character code = 48 + bits.
EVOware pairs the selected tips in ascending order with the selected wells in ascending row order.
"""
import re

ARG = re.compile(r'"[^"]*"|[^,]+')


class Reject(Exception):
    pass


def decode_selection(sel):
    if len(sel) < 4:
        raise Reject(f"selection string too short: {sel!r}")
    try:
        C, R = int(sel[0:2], 16), int(sel[2:4], 16)
    except ValueError:
        raise Reject(f"bad selection header {sel[:4]!r}")
    body = sel[4:]
    need = -(-R * C // 7)
    if len(body) != need:
        raise Reject(f"selection body has {len(body)} characters instead of {need}")
    bits = []
    for ch in body:
        v = ord(ch) - 48
        if not 0 <= v < 128:
            raise Reject(f"selection character out of range: {ch!r}")
        bits += [(v >> i) & 1 for i in range(7)]
    if any(bits[R * C:]):
        raise Reject("padding bits set")
    wells = [(i % R, i // R) for i, b in enumerate(bits[: R * C]) if b]
    return R, C, wells


def parse(cmd):
    m = re.fullmatch(r"B;(Aspirate|Dispense|Wash)\((.*)\);", cmd)
    if not m:
        raise Reject(f"not an EVO script command: {cmd!r}")
    args = ARG.findall(m.group(2))
    return m.group(1), args


def unq(a):
    return a[1:-1] if len(a) >= 2 and a[0] == '"' and a[-1] == '"' else a
