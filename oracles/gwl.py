"""Independent interpreter of Tecan worklist (.gwl) records.  Does not import robotools.

Record grammar (Tecan Freedom EVOware manual, "Worklist" chapter):
  A;RackLabel;RackID;RackType;Position;TubeID;Volume;LiquidClass;TipType;TipMask;ForcedRackType
  D;... same eleven fields
  W;  W1; .. W4;  WD;  F;  B;  C;comment  S;index
  R;SrcLabel;SrcID;SrcType;SrcStart;SrcEnd;DstLabel;DstID;DstType;DstStart;DstEnd;Volume;LC;DitiReuse;MultiDisp;Direction[;Excl...]
Numbering (specification side): plate position = 1 + col*rows + row; trough on EVO = 1 + col*vrows + vrow,
trough on Fluent = 1 + col.  For R records the source range is read as "tip positions of one trough column"
(1 + vrows*col .. vrows*col + vrows) on both devices (pinned by the repository's own tests, DESIGN L1).

Number-agnostic: volumes may be floats or symbolic proxies; `ctx.field(text)` resolves a numeric field.
"""
ROWS = "ABCDEFGHIJKLMNOPQRSTUVWXYZ"


class OracleReject(Exception):
    """the record list is not executable / not well-formed"""


class Geometry:
    def __init__(self, name, rows, cols, vrows=None):
        self.name, self.rows, self.cols, self.vrows = name, rows, cols, vrows

    def real_wells(self):
        return [(r, c) for c in range(self.cols) for r in range(self.rows)]

    def decode(self, pos, device):
        """position -> real well index (row, col)"""
        if not isinstance(pos, int) or isinstance(pos, bool) or pos < 1:
            raise OracleReject(f"bad position {pos!r} on {self.name}")
        if self.vrows is not None:
            c = pos - 1 if device == "fluent" else (pos - 1) // self.vrows
            if c >= self.cols:
                raise OracleReject(f"position {pos} outside trough {self.name}")
            return (0, c)
        c, r = divmod(pos - 1, self.rows)
        if c >= self.cols:
            raise OracleReject(f"position {pos} outside plate {self.name}")
        return (r, c)

    def encode(self, well_id, device):
        """well id -> position by the specification formula"""
        r = ROWS.index(well_id[0])
        c = int(well_id[1:]) - 1
        if self.vrows is not None:
            return 1 + c if device == "fluent" else 1 + c * self.vrows + r
        return 1 + c * self.rows + r

    def real_of(self, well_id):
        r = ROWS.index(well_id[0])
        c = int(well_id[1:]) - 1
        return (0, c) if self.vrows is not None else (r, c)


def split_record(rec):
    f = rec.split(";")
    t = f[0]
    if t in ("A", "D"):
        if len(f) != 11:
            raise OracleReject(f"{t} record with {len(f)} fields: {rec}")
    elif t == "R":
        if len(f) < 16:
            raise OracleReject(f"R record with {len(f)} fields: {rec}")
    elif t in ("W", "W1", "W2", "W3", "W4", "WD", "F", "B"):
        if f[1:] != [""]:
            raise OracleReject(f"malformed {t} record: {rec}")
    elif t == "C":
        if len(f) != 2:
            raise OracleReject(f"comment with separator: {rec}")
    elif t == "S":
        if len(f) != 2:
            raise OracleReject(f"malformed S record: {rec}")
    else:
        raise OracleReject(f"unknown record type: {rec}")
    if "\n" in rec or "\r" in rec:
        raise OracleReject(f"line break inside a record: {rec!r}")
    return f


class Interpreter:
    def __init__(self, ctx, device, geometries, volumes, compositions=None):
        """volumes: {(rack, (r, c)): number}; compositions: {(rack,(r,c)): {component: fraction}} or None"""
        self.ctx, self.device = ctx, device
        self.geo = {g.name: g for g in geometries}
        self.vol = dict(volumes)
        self.volx = dict(volumes)   # same, but moved with the exact (pre-rounding) volumes: used for composition only
        self.comp = None if compositions is None else {k: dict(v) for k, v in compositions.items()}
        self.touch = {k: 0 for k in self.vol}
        self.steps = []   # (kind, rack, real well, position, rounded, exact)
        self.trace = []   # (key, volume after, records touching so far, kind, record index)
        self.tip = None   # (volume, composition) currently held by the tip (A ... D pairing)
        self.nrec = 0

    def _pos(self, text):
        p = self.ctx.int_field(text)
        if not isinstance(p, int):
            raise OracleReject(f"symbolic position field {text!r}")
        return p

    def _mix(self, key, add_vol, add_comp):
        if self.comp is None:
            return
        ctx = self.ctx
        old = self.comp.get(key, {})
        v = self.volx[key]
        if add_comp is None:
            self.comp[key] = None
            return
        if old is None:
            return
        tot = v + add_vol
        names = list(dict.fromkeys(list(old) + list(add_comp)))
        zero = ctx.eq(tot, 0)
        new = {}
        for n in names:
            o, a = old.get(n, 0), add_comp.get(n, 0)
            new[n] = ctx.ite(zero, o, ctx.div(v * o + add_vol * a, tot))
        self.comp[key] = new

    def move(self, kind, rack, pos, rounded, exact, comp=None):
        if rack not in self.geo:
            raise OracleReject(f"record names unknown rack {rack!r}")
        g = self.geo[rack]
        w = g.decode(pos, self.device)
        key = (rack, w)
        ex = rounded if exact is None else exact
        if kind == "A":
            self.vol[key] = self.vol[key] - rounded
            self.volx[key] = self.volx[key] - ex
        else:
            self._mix(key, ex, comp)
            self.vol[key] = self.vol[key] + rounded
            self.volx[key] = self.volx[key] + ex
        self.touch[key] += 1
        self.steps.append((kind, rack, w, pos, rounded, exact))
        self.trace.append((key, self.vol[key], self.touch[key], kind, self.nrec))

    def frac(self, key, name):
        c = self.comp.get(key) or {}
        return c.get(name, 0)

    def run(self, records):
        for rec in records:
            self.nrec += 1
            f = split_record(rec)
            t = f[0]
            if t == "A":
                rounded, exact = self.ctx.field(f[6])
                rack, pos = f[1], self._pos(f[4])
                g = self.geo.get(rack)
                comp = None
                if self.comp is not None and g is not None:
                    comp = self.comp.get((rack, g.decode(pos, self.device)))
                self.move("A", rack, pos, rounded, exact)
                self.tip = comp
            elif t == "D":
                rounded, exact = self.ctx.field(f[6])
                self.move("D", f[1], self._pos(f[4]), rounded, exact, comp=self.tip if self.comp is not None else None)
            elif t == "R":
                src, s0, s1, dst, d0, d1 = f[1], self._pos(f[4]), self._pos(f[5]), f[6], self._pos(f[9]), self._pos(f[10])
                rounded, exact = self.ctx.field(f[11])
                excl = [self._pos(x) for x in f[16:]]
                if src not in self.geo:
                    raise OracleReject(f"R record names unknown rack {src!r}")
                g = self.geo[src]
                if g.vrows is None:
                    raise OracleReject("R source must be a trough")
                cols = {(p - 1) // g.vrows for p in range(s0, s1 + 1)}
                if not (len(cols) == 1 and s1 - s0 + 1 == g.vrows and (s0 - 1) % g.vrows == 0):
                    raise OracleReject(f"R source range {s0}..{s1} is not one column of {src}")
                (c,) = cols
                if c >= g.cols:
                    raise OracleReject(f"R source column {c} outside {src}")
                if excl != sorted(excl) or any(not (d0 <= x <= d1) for x in excl) or len(set(excl)) != len(excl):
                    raise OracleReject(f"R exclusion list not sorted/unique/in range: {excl}")
                if d1 < d0:
                    raise OracleReject("R destination range empty")
                targets = [p for p in range(d0, d1 + 1) if p not in excl]
                key = (src, (0, c))
                comp = self.comp.get(key) if self.comp is not None else None
                for p in targets:
                    self.vol[key] = self.vol[key] - rounded
                    self.volx[key] = self.volx[key] - (rounded if exact is None else exact)
                    self.touch[key] += 1
                    self.trace.append((key, self.vol[key], self.touch[key], "A", self.nrec))
                    self.move("D", dst, p, rounded, exact, comp=comp)
                self.steps.append(("R", src, (0, c), (s0, s1), rounded, exact, len(targets), f))
        return self
