"""Driver: shards a harness over worker processes, aggregates verdicts, replays counterexamples on the
real code (real numpy, /venv/bin/python), handles known findings and writes the evidence file."""
import argparse
import importlib
import json
import multiprocessing as mp
import os
import subprocess
import sys
import time
import traceback

ROOT = os.path.dirname(os.path.dirname(os.path.abspath(__file__)))
sys.path.insert(0, ROOT)
from symex import hygiene  # noqa: E402

REPO = os.environ.get("VERIF_REPO", "/repo")
VENV_PY = os.environ.get("VERIF_REPLAY_PY", "/venv/bin/python")
EXIT_OK, EXIT_VIOLATION, EXIT_INCONCLUSIVE, EXIT_HARNESS = 0, 1, 2, 3


def load_known(pid):
    p = os.path.join(ROOT, "known_findings.json")
    if not os.path.exists(p):
        return []
    data = json.load(open(p))
    return [f for f in data.get("findings", []) if f["property"] == pid]


class Budget(Exception):
    pass


def run_shard(job):
    pid, tier, idx, params, seed, known_ids = job[:6]
    spill = job[6] if len(job) > 6 else None
    t0 = time.time()
    out = dict(idx=idx, params=params, error=None)
    if params.get("concrete"):
        return run_concrete_shard(pid, idx, params, t0)
    try:
        from symex import core, install

        install.install()
        H = importlib.import_module(f"harness.{pid}")
        if hasattr(H, "setup"):
            H.setup()
        opts = dict(seed=seed, known=known_ids)
        if hasattr(H, "engine_opts"):
            opts.update(H.engine_opts(params, tier))
        max_seconds = opts.pop("max_seconds", 3000)
        eng = core.Engine(**opts)
        eng.spill = spill
        funcs = set()
        state = dict(n=0)

        def prof(frame, event, arg):
            if event == "call":
                fn = frame.f_code.co_filename
                if "/robotools/" in fn and "/test_" not in fn:
                    funcs.add(fn.split("/robotools/")[-1] + ":" + frame.f_code.co_name)

        def prog(e):
            state["n"] += 1
            if state["n"] <= 12:
                sys.setprofile(prof)
            hygiene.reset_process_state()
            try:
                return H.scenario(e, params)
            finally:
                sys.setprofile(None)

        def on_path(e, outcome):
            if time.time() - t0 > max_seconds:
                raise Budget()
            if state["n"] <= 12:
                sys.setprofile(prof)   # harnesses such as C14 execute more of the real code while judging (to_worklist)
            try:
                H.judge(e, params, outcome)
            finally:
                sys.setprofile(None)

        incomplete = False
        try:
            eng.explore(prog, on_path)
        except Budget:
            incomplete = True
        out.update(stats=eng.stats, violations=eng.violations, unknowns=eng.unknowns, samples=eng.samples[:2],
                   reached=sorted(eng.reached), funcs=sorted(funcs), incomplete=incomplete,
                   known_seen=eng.known_seen, extra=getattr(eng, "extra", None), label_counts=eng.label_counts,
                   dead_options=sorted(f"{n}={v}" for (n, k), v in eng.choice_offered.items() if (n, k) not in eng.choice_seen) if not incomplete else [])
    except BaseException as ex:  # noqa: BLE001
        out["error"] = "".join(traceback.format_exception(type(ex), ex, ex.__traceback__))[-3000:]
    out["wall"] = time.time() - t0
    return out


def _child(conn, job):
    try:
        conn.send(run_shard(job))
    except BaseException as ex:  # noqa: BLE001
        try:
            conn.send(dict(idx=job[2], params=job[3], error=f"worker failed: {ex!r}", wall=0.0))
        except Exception:  # noqa: BLE001
            pass
    finally:
        conn.close()


def run_all(jobs, njobs, shard_timeout):
    """one forked process per shard (a crashed or hung worker cannot stall the run); at most njobs at a time"""
    from multiprocessing.connection import wait

    import tempfile

    ctx = mp.get_context("fork")
    spilldir = tempfile.mkdtemp(prefix="verif_spill_")
    jobs = [tuple(j) + (os.path.join(spilldir, f"{j[2]}.jsonl"),) for j in jobs]
    pending = list(jobs)
    running = {}   # conn -> (proc, job, t0)
    results = []
    while pending or running:
        while pending and len(running) < njobs:
            job = pending.pop(0)
            parent, child = ctx.Pipe(duplex=False)
            pr = ctx.Process(target=_child, args=(child, job), daemon=True)
            pr.start()
            child.close()
            running[parent] = (pr, job, time.time())
        ready = wait(list(running), timeout=1.0)
        for conn in ready:
            pr, job, t0 = running.pop(conn)
            try:
                results.append(conn.recv())
            except (EOFError, OSError):
                results.append(dict(idx=job[2], params=job[3], error=f"worker died without a result (exit code {pr.exitcode})", wall=time.time() - t0))
            conn.close()
            pr.join(timeout=5)
        now = time.time()
        for conn, (pr, job, t0) in list(running.items()):
            if now - t0 > shard_timeout:
                pr.kill()
                running.pop(conn)
                conn.close()
                found = []
                try:
                    found = [json.loads(ln) for ln in open(job[6])]
                except OSError:
                    pass
                lc = {}
                for v in found:
                    lc[v["label"]] = lc.get(v["label"], 0) + 1
                results.append(dict(idx=job[2], params=job[3], error=None, timeout=True, wall=now - t0, stats=dict(violated=len(found)), violations=found, unknowns=[
                    dict(label="shard timed out", reason=f"no result within {shard_timeout}s")], samples=[], reached=[], funcs=[], incomplete=True, known_seen={}, label_counts=lc))
    import shutil

    shutil.rmtree(spilldir, ignore_errors=True)
    return results


def run_concrete_shard(pid, idx, params, t0):
    """a purely concrete shard (finite enumeration, no symbolic input) runs on the unmodified code with the REAL numpy under /venv"""
    env = dict(os.environ, VERIF_REPO=REPO, PYTHONDONTWRITEBYTECODE="1", PYTHONHASHSEED="0")
    r = subprocess.run([VENV_PY, os.path.join(ROOT, "replay", "run.py"), "--enumerate", pid, json.dumps(params)], capture_output=True, text=True, env=env)
    line = [ln for ln in r.stdout.splitlines() if ln.startswith("ENUM-RESULT ")]
    out = dict(idx=idx, params=params, error=None, wall=time.time() - t0)
    if r.returncode != 0 or not line:
        out["error"] = "concrete shard failed: " + (r.stdout + r.stderr)[-1500:]
        return out
    res = json.loads(line[0][len("ENUM-RESULT "):])
    lc = {}
    viol = []
    for f in res["failed"]:
        lc[f["label"]] = lc.get(f["label"], 0) + 1
        if lc[f["label"]] <= 2:
            viol.append(dict(label=f["label"], info=f["info"], witness=dict(choices=f["choices"], values={}, mode="concrete")))
    st = dict(paths=res["paths"], ok=res["paths"], obligations=res["paths"], discharged=res["paths"] - len(res["failed"]), violated=len(res["failed"]),
              concrete_paths=res["paths"])
    out.update(stats=st, violations=viol, unknowns=[], samples=[], reached=res["reached"], funcs=[], incomplete=False, known_seen={}, label_counts=lc)
    return out


def replay_file(path):
    """-> (status, text): status 'reproduced' | 'not-reproduced' | 'error'"""
    env = dict(os.environ, VERIF_REPO=REPO, PYTHONDONTWRITEBYTECODE="1", PYTHONHASHSEED="0")
    r = subprocess.run([VENV_PY, os.path.join(ROOT, "replay", "run.py"), path], capture_output=True, text=True, env=env, timeout=600)
    txt = (r.stdout + r.stderr).strip()
    if r.returncode == 1:
        return "reproduced", txt
    if r.returncode == 0:
        return "not-reproduced", txt
    return "error", txt


def main(argv=None):
    import logging

    logging.disable(logging.CRITICAL)   # robotools logs warnings (multi_disp reduction, partitioning hints); not part of any property
    ap = argparse.ArgumentParser()
    ap.add_argument("pid")
    ap.add_argument("--tier", default=os.environ.get("VERIF_TIER", "quick"), choices=["quick", "thorough"])
    ap.add_argument("--replay")
    ap.add_argument("--jobs", type=int, default=int(os.environ.get("VERIF_JOBS", "16")))
    ap.add_argument("--only", help="substring filter on shard params (debug)")
    args = ap.parse_args(argv)
    pid = args.pid
    if args.replay:
        st, txt = replay_file(args.replay)
        print(txt)
        print(f"replay: {st}")
        return {"reproduced": 1, "not-reproduced": 0}.get(st, EXIT_HARNESS)

    seed = int(os.environ.get("VERIF_SEED", "0") or 0)
    t0 = time.time()
    H = importlib.import_module(f"harness.{pid}")
    shards = H.shards(args.tier)
    if args.only:
        shards = [s for s in shards if args.only in json.dumps(s)]
    known = load_known(pid)
    known_ids = [k["id"] for k in known]
    jobs = [(pid, args.tier, i, p, seed, known_ids) for i, p in enumerate(shards)]
    # heavier shards first when the harness provides a weight
    if hasattr(H, "weight"):
        jobs.sort(key=lambda j: -H.weight(j[3]))
    results = run_all(jobs, args.jobs, shard_timeout=int(os.environ.get("VERIF_SHARD_TIMEOUT", 0)) or getattr(H, "SHARD_TIMEOUT", {}).get(args.tier, 900 if args.tier == "quick" else 3000))
    results.sort(key=lambda r: r["idx"])
    if os.environ.get("VERIF_VERBOSE"):
        for r in sorted(results, key=lambda r: -r["wall"])[:40]:
            st = r.get("stats") or {}
            print(f"  shard {r['idx']:3d} {'TIMEOUT ' if r.get('timeout') else ''}wall={r['wall']:7.1f}s paths={st.get('paths')} calls={st.get('solver_calls')} solver_s={st.get('solver_s', 0):.1f} unk={st.get('unknown_paths')} {json.dumps(r['params'])}")

    agg = {}
    violations, unknowns, samples, reached, funcs, errors, incomplete = [], [], [], set(), set(), [], 0
    known_seen = {}
    for r in results:
        if r["error"]:
            errors.append((r["params"], r["error"]))
            continue
        for k, v in r["stats"].items():
            agg[k] = agg.get(k, 0) + v
        for v in r["violations"]:
            v["shard"] = r["params"]
            violations.append(v)
        for u in r["unknowns"]:
            u["shard"] = r["params"]
            unknowns.append(u)
        samples.extend([dict(shard=r["params"], **s) for s in r["samples"]])
        reached.update(r["reached"])
        funcs.update(r["funcs"])
        incomplete += 1 if r["incomplete"] else 0
        known_seen.update(r.get("known_seen") or {})

    code = EXIT_OK
    lines = []
    if violations:
        cnt = {}
        for r in results:
            for lab, n in (r.get("label_counts") or {}).items():
                cnt[lab] = cnt.get(lab, 0) + n
        lines.append("refuted claims (path classes per distinct claim):")
        for lab, n in sorted(cnt.items(), key=lambda kv: -kv[1])[:40]:
            lines.append(f"  refuted x{n}: {lab}")
    # ---- harness errors
    for params, err in errors[:3]:
        lines.append(f"HARNESS-ERROR property={pid} shard={json.dumps(params)}\n{err}")
    if errors:
        code = EXIT_HARNESS
    # ---- vacuity witnesses
    want = set(H.witnesses(args.tier)) if hasattr(H, "witnesses") else set()
    dead = [(r["params"], r.get("dead_options")) for r in results if r.get("dead_options") and not r.get("timeout") and not r.get("stats", {}).get("stopped_early")]
    for params, opts in dead[:5]:
        # an option of a structural choice that no feasible path ever took: the cases it stands for are NOT covered (vacuity)
        lines.append(f"HARNESS-ERROR property={pid} vacuity: choice options without any feasible path {opts} shard={json.dumps(params)}")
    if dead and not errors and not violations:
        code = EXIT_HARNESS
    missing = sorted(want - reached)
    if missing and not errors and not args.only:
        lines.append(f"HARNESS-ERROR property={pid} vacuity: outcome classes never reached: {missing}")
        code = EXIT_HARNESS
    # ---- violations: replay distinct ones (by label) on the real code
    os.makedirs(os.path.join(ROOT, "replays"), exist_ok=True)
    seen_labels = {}
    reproduced, not_reproduced = [], []
    for v in violations:
        lab = v["label"]
        if seen_labels.get(lab, 0) >= 2 or len(seen_labels) >= 12 and lab not in seen_labels:
            continue
        seen_labels[lab] = seen_labels.get(lab, 0) + 1
        n = len(reproduced) + len(not_reproduced)
        path = os.path.join(ROOT, "replays", f"{pid}-{n:02d}.json")
        json.dump(dict(property=pid, label=lab, info=v.get("info"), shard=v["shard"], witness=v["witness"]), open(path, "w"), indent=1, default=str)
        st, txt = replay_file(path)
        if st == "reproduced" and f"FAILED claim: {lab}" not in txt and not getattr(H, "REPLAY_ANY_CLAIM", False):
            st = "other-claim-failed"   # the replay fails a different claim than the one the solver refuted: not a confirmation
        (reproduced if st == "reproduced" else not_reproduced).append((lab, path, st, txt))
    for lab, path, st, txt in reproduced:
        lines.append(f"VIOLATION property={pid} replay={path}")
        lines.append(f"  claim: {lab}")
        lines.append("  " + txt.replace("\n", "\n  ")[:1500])
    if reproduced:
        code = EXIT_VIOLATION
    elif not_reproduced:
        for lab, path, st, txt in not_reproduced[:4]:
            lines.append(f"HARNESS-ERROR property={pid} counterexample did not reproduce on the real code ({st}): {lab} replay={path}")
            lines.append("  " + txt.replace("\n", "\n  ")[:1500])
        code = EXIT_HARNESS
    # ---- known findings: replay each listed witness; print while it still fails
    kf_lines = []
    for k in known:
        wpath = os.path.join(ROOT, k["replay"])
        st, txt = replay_file(wpath)
        if st == "reproduced":
            kf_lines.append(f"KNOWN-FINDING: property={pid} {k['what']}")
        elif st == "error":
            lines.append(f"HARNESS-ERROR property={pid} known-finding witness {k['id']} could not be replayed: {txt[:500]}")
            code = max(code, EXIT_HARNESS) if code != EXIT_VIOLATION else code
    # ---- inconclusive
    n_unknown = agg.get("unknown", 0) + agg.get("unknown_paths", 0) + agg.get("unsupported", 0)
    if (n_unknown or incomplete) and code == EXIT_OK:
        code = EXIT_INCONCLUSIVE
    for u in unknowns[:6]:
        lines.append(f"INCONCLUSIVE property={pid} {u['label']}: {u.get('reason')} shard={json.dumps(u['shard'])}")
    if incomplete:
        lines.append(f"INCONCLUSIVE property={pid} {incomplete} shard(s) ran out of their time budget")

    wall = time.time() - t0
    explanation = getattr(H, "EXPLANATION", "") or (
        "bounded symbolic execution of the real robotools functions on proxy values carrying z3 terms; every "
        "data-dependent branch and every end-of-path obligation is decided by the SMT solver (z3) under the path condition")
    ev = dict(
        property_id=pid, tier=args.tier, seed=seed, level="other",
        coverage=dict(
            explanation=explanation,
            evaluations=int(agg.get("paths", 0)),
            distinct_nontrivial=int(agg.get("nontrivial_paths", 0)),
            rule="one evaluation = one explored path class of the real code (a distinct sequence of solver-decided branch outcomes "
                 "and structural choices); non-trivial = at least one obligation over symbolic inputs was stated on the path and decided by "
                 "the solver (obligations that simplify to a constant are counted separately as trivially true)",
            samples=samples[:6] or [dict(note="no path sampled")],
            obligations=int(agg.get("obligations", 0)), discharged=int(agg.get("discharged", 0)),
            violated=int(agg.get("violated", 0)), unknown=int(agg.get("unknown", 0)),
            refutations_only_within_1e_6_of_a_rounding_boundary=int(agg.get("boundary_only", 0)),
            trivially_true_obligations=int(agg.get("trivial", 0)),
            paths=dict(ok=agg.get("ok", 0), exception=agg.get("exc", 0), aborted_out_of_bound=agg.get("aborted", 0),
                       unsupported=agg.get("unsupported", 0), solver_unknown=agg.get("unknown_paths", 0),
                       nonfinite=agg.get("nonfinite", 0), infeasible_prefixes=agg.get("infeasible", 0)),
            solver=dict(name="z3 " + _z3ver(), queries=int(agg.get("solver_calls", 0)), seconds=round(agg.get("solver_s", 0.0), 2),
                        branches=int(agg.get("branches", 0)), forks=int(agg.get("forks", 0))),
            shards=len(shards), shards_incomplete=incomplete,
            concrete_enumeration_paths_on_real_numpy=int(agg.get("concrete_paths", 0)),
            functions_encoded=sorted(funcs),
            bounds=H.BOUNDS[args.tier] if hasattr(H, "BOUNDS") else "",
            outside_claim=getattr(H, "OUTSIDE", ""),
            outcome_classes_reached=sorted(reached),
            exhaustive=bool(not incomplete and not errors and not n_unknown),
            known_findings=[k["id"] for k in known], known_findings_still_present=len(kf_lines),
            replayed=dict(reproduced=len(reproduced), not_reproduced=len(not_reproduced)),
            repo=REPO,
        ),
        assumptions=list(getattr(H, "ASSUMPTIONS", [])) + [
            "z3 decides every query; unknown/timeout is reported as inconclusive, never as success",
            "numpy is replaced by the pure-Python stand-in symex/npshim.py inside robotools' module globals (validated by running the repository's 148 tests on it: selftest/shimplug.py)",
            "CPython semantics of the proxy classes (symex/core.py); counterexamples are replayed on the unmodified code with real numpy before being reported",
            "every explored path, enumerated case and replay starts from the state of a fresh process (symex/hygiene.py clears memoisation caches and restores "
            "module-/class-level containers of the robotools modules); earlier calls in the same process are exactly those the scenario performs itself",
        ],
        wall_s=round(wall, 2),
        violations=len(reproduced),
    )
    if os.path.realpath(REPO) == "/repo" and not args.only:
        # evidence describes runs of the registered command against /repo itself; runs against scratch copies (self-test, seeded changes)
        # or of a shard subset do not overwrite it
        os.makedirs(os.path.join(ROOT, "evidence"), exist_ok=True)
        json.dump(ev, open(os.path.join(ROOT, "evidence", f"{pid}.json"), "w"), indent=1, default=str)

    for ln in kf_lines:
        print(ln)
    for ln in lines:
        print(ln)
    print(f"{pid} tier={args.tier} shards={len(shards)} paths={agg.get('paths', 0)} obligations={agg.get('obligations', 0)} "
          f"discharged={agg.get('discharged', 0)} violated={agg.get('violated', 0)} unknown={n_unknown} "
          f"solver_queries={agg.get('solver_calls', 0)} solver_s={agg.get('solver_s', 0.0):.1f} wall_s={wall:.1f} exit={code}")
    return code


def _z3ver():
    try:
        import z3

        return z3.get_version_string()
    except Exception:  # noqa: BLE001
        return "?"


if __name__ == "__main__":
    sys.exit(main())
