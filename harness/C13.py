"""C13 - EVO script commands agree with the volume tracking and with their arguments."""
from fractions import Fraction

from harness import common
from oracles import evoscript

ID = "C13"
HALF = Fraction(1, 200)
BOUNDS = {
    "quick": "evo_aspirate / evo_dispense from an arbitrary valid state of a plate 4x2 or a trough with 4 virtual rows x 2 columns: n<=2 wells (n=3 on the plate with per-tip volumes and tips 1,2,3) chosen from "
             "{A01,B01,C01,A02} in any order with repeats, n tips each an unbounded symbolic int (for n=2 also Tip.T3 / Tip.T4 mixed with ints), volumes scalar or per tip (symbolic), grid / site / arm "
             "unbounded symbolic ints; the liquid class as an abstract string (length 0..40, may contain ';'); evo_wash with all thirteen parameters symbolic (ints unbounded, volumes real) and tips of length 1..2; scalar-volume commands are preceded by an earlier command for the same geometry in the same process (rejected for an unknown well after a valid one, rejected for two columns, or accepted)",
    "thorough": "n<=3 wells / tips",
}
OUTSIDE = "more wells/tips per command, other geometries, labware with more than 2 columns"
ASSUMPTIONS = ["oracle: oracles/evoscript.py (command grammar, well-selection decoding, EVOware pairing rule: selected tips ascending serve selected wells in ascending row order)"]


def shards(tier):
    out = []
    N = 2 if tier == "quick" else 3
    for cmd in ("evo_aspirate", "evo_dispense"):
        for kind in ("plate", "trough"):
            for n in range(1, N + 1):
                for volmode in ("scalar", "list"):
                    out.append(dict(part="cmd", cmd=cmd, kind=kind, n=n, volmode=volmode))
        if tier == "quick":
            out.append(dict(part="cmd", cmd=cmd, kind="plate", n=3, volmode="list", tips_fixed=True))
    for cmd in ("evo_aspirate", "evo_dispense"):
        out.append(dict(part="cmd", cmd=cmd, kind="plate", n=2, volmode="list", tipmix=True))
    for n in (1, 2):
        out.append(dict(part="wash", n=n))
    out.append(dict(part="pos", cmd="evo_aspirate"))
    for cmd in ("evo_aspirate", "evo_dispense"):
        out.append(dict(part="cmd", cmd=cmd, kind="plate", n=1, volmode="scalar", symlc=True, tips_fixed=True))
    return out


def weight(p):
    return 10 ** p.get("n", 1)


def engine_opts(p, tier):
    return dict(mode="real", int_lo=-1, int_hi=10)


def witnesses(tier):
    return {"cmd:ok", "cmd:rejected", "wash:ok", "wash:rejected", "pos:ok", "pos:rejected"}


def scenario(ctx, p):
    ns = common.rt()
    c = ctx.ctx
    wl = ns.EvoWorklist(max_volume=ctx.real("wl_max", 1, common.BIG))
    c["wl"] = wl
    if p["part"] == "wash":
        tips = [ctx.int(f"t{i}") for i in range(p["n"])]
        ints = {k: ctx.int(k) for k in ("wg", "ws", "cg", "cs", "arm", "waste_delay", "cleaner_delay", "airgap", "airgap_speed", "retract_speed", "fastwash", "low_volume")}
        wv, cv = ctx.real("waste_vol"), ctx.real("cleaner_vol")
        c.update(tips=tips, ints=ints, wv=wv, cv=cv)
        wl.evo_wash(tips=tips, waste_location=(ints["wg"], ints["ws"]), cleaner_location=(ints["cg"], ints["cs"]), arm=ints["arm"], waste_vol=wv,
                    waste_delay=ints["waste_delay"], cleaner_vol=cv, cleaner_delay=ints["cleaner_delay"], airgap=ints["airgap"], airgap_speed=ints["airgap_speed"],
                    retract_speed=ints["retract_speed"], fastwash=ints["fastwash"], low_volume=ints["low_volume"])
        return wl
    kind = p.get("kind", "plate")
    lab, g, pre = common.make_labware(ctx, "P", ("plate", 4, 2) if kind == "plate" else ("trough", 4, 2), filled=False)
    c.update(lab=lab, pre={k[1]: v for k, v in pre.items()}, kind=kind)
    if p["part"] == "pos":
        grid, site, arm = ctx.int("grid"), ctx.int("site"), ctx.int("arm")
        x = ctx.real("x0", 0, common.BIG)
        c.update(grid=grid, site=site, arm=arm, wells=["A01"], tips=[1], vols=x, per=[x])
        wl.evo_aspirate(lab, ["A01"], (grid, site), [1], x, "LC", arm=arm)
        return wl
    n = p["n"]
    wells = [ctx.choose(f"w{i}", ["A01", "B01", "C01", "A02"]) for i in range(n)]
    if p.get("tips_fixed"):
        tips = list(range(1, n + 1))
    elif p.get("tipmix"):
        # plain ints and Tip members (IntEnum bit values 1, 2, 4, ... 128) mixed in one list
        from robotools.evotools.types import Tip
        tips = []
        for i in range(n):
            tk = ctx.choose(f"tk{i}", ["sym", "T3", "T4"])
            tips.append(ctx.int(f"t{i}") if tk == "sym" else getattr(Tip, tk))
    else:
        tips = [ctx.int(f"t{i}") for i in range(n)]
    if p["volmode"] == "scalar":
        x = ctx.real("x0", 0, common.BIG)
        vols, per = x, [x] * n
    else:
        per = [ctx.real(f"x{i}", 0, common.BIG) for i in range(n)]
        vols = list(per)
    lc = ctx.absstr("liquid_class") if p.get("symlc") else "LC"
    c.update(wells=wells, tips=tips, vols=vols, per=per, grid=30, site=2, arm=0, lc=lc)
    if p["volmode"] == "scalar" and not p.get("symlc"):
        # history: an earlier command for the same geometry in the same process - rejected half-way (a well that does not exist after a
        # valid one; wells of two columns) or accepted; the command under test must not depend on it
        earlier = ctx.choose("earlier", [None, "unknown-well", "two-columns", "accepted"])
        c["earlier"] = earlier
        if earlier is not None:
            from robotools.evotools import commands
            ew = {"unknown-well": ["A01", "Z09"], "two-columns": ["B01", "B02"], "accepted": ["B01", "D01"]}[earlier]
            try:
                getattr(commands, p["cmd"])(n_rows=lab.n_rows, n_columns=lab.n_columns, wells=ew, labware_position=(30, 2), volume=[1.0, 1.0],
                                            liquid_class="LC", tips=[1, 2])
            except (KeyError, ValueError):
                pass
    getattr(wl, p["cmd"])(lab, wells, (30, 2), tips, vols, lc, arm=0)
    return wl


def judge(ctx, p, outcome):
    kind, val = outcome
    if kind not in ("ok", "exc"):
        return
    c = ctx.ctx
    wl = c["wl"]
    recs = list(wl)
    part = p["part"]
    if kind == "exc":
        ctx.reach(f"{part}:rejected")
        if recs:
            ctx.violate("C13: a rejected EVO command left a record behind", info=repr(recs))
        return
    ctx.reach(f"{part}:ok")
    if len(recs) != 1:
        ctx.violate(f"C13: {len(recs)} records emitted for one EVO command")
        return
    try:
        name, args = evoscript.parse(recs[0])
    except evoscript.Reject as ex:
        ctx.violate(f"C13: {ex}")
        return
    if part == "wash":
        judge_wash(ctx, c, name, args)
        return
    if len(args) != 20:
        ctx.violate(f"C13: command has {len(args)} arguments instead of 20")
        return
    want_name = "Aspirate" if p.get("cmd", "evo_aspirate") == "evo_aspirate" else "Dispense"
    if name != want_name:
        ctx.violate(f"C13: command {name} emitted for {p.get('cmd')}")
    mask = int(args[0])
    lc = evoscript.unq(args[1])
    slots = [evoscript.unq(a) for a in args[2:14]]
    grid, site, arm = ctx.int_field(args[14]), ctx.int_field(args[15]), ctx.int_field(args[19])
    given = c.get("lc", "LC")
    if ctx.symbolic:
        from symex.strings import field_equals
        same = field_equals(ctx, lc, given)
    else:
        same = lc == given
    ctx.prove(same, "C13: the command does not name the given liquid class")
    if ctx.symbolic and hasattr(given, "flag"):
        from symex import core
        ctx.prove(ctx.not_(core.SBool(ctx, given.flag(";"))), "C13: a separator inside the liquid class was accepted")
    elif ";" in given:
        ctx.violate("C13: a separator inside the liquid class was accepted")
    ctx.prove(ctx.all_of([ctx.eq(grid, c["grid"]), ctx.eq(site, c["site"] - 1), ctx.eq(arm, c["arm"])]), "C13: grid / zero-based site / arm fields differ from the arguments")
    ctx.prove(ctx.all_of([ctx.le(1, c["grid"]), ctx.le(c["grid"], 67), ctx.le(1, c["site"]), ctx.le(c["site"], 128), ctx.any_of([ctx.eq(c["arm"], 0), ctx.eq(c["arm"], 1)])]),
              "C13: out-of-range grid / site / arm was accepted")
    lab = c["lab"]
    try:
        R, C, selwells = evoscript.decode_selection(evoscript.unq(args[17]))
    except evoscript.Reject as ex:
        ctx.violate(f"C13: {ex}")
        return
    nrows = len(lab.row_ids)
    if (R, C) != (nrows, lab.n_columns):
        ctx.violate(f"C13: selection header {R}x{C} differs from the labware {nrows}x{lab.n_columns}")
        return
    tips_sel = [i for i in range(8) if mask >> i & 1]
    if mask >> 8:
        ctx.violate(f"C13: tip mask {mask} selects tips beyond 8")
        return
    if len({w[1] for w in selwells}) > 1:
        ctx.violate("C13: command selects wells from several columns")
        return
    if len(tips_sel) != len(selwells):
        ctx.violate(f"C13: command selects {len(tips_sel)} tips but {len(selwells)} wells: it cannot be executed as requested", info=recs[0])
        return
    # EVOware rule: selected tips ascending serve selected wells ascending
    implied = {}
    for tip, (r, col) in zip(tips_sel, sorted(selwells, key=lambda w: (w[1], w[0]))):
        v, _ = ctx.field(slots[tip])
        real = (0, col) if c["kind"] == "trough" else (r, col)
        implied[real] = implied.get(real, 0) + v
    for i in range(12):
        if i not in tips_sel and slots[i] != "0":
            ctx.violate(f"C13: volume slot {i + 1} filled although tip {i + 1} is not selected")
    sign = -1 if name == "Aspirate" else 1
    for idx, prev in c["pre"].items():
        post = lab._volumes[idx]
        ctx.prove(ctx.within(post - prev, sign * implied.get(idx, 0), HALF * max(1, len(tips_sel))),
                  f"C13: the command changes well {idx} by a different volume than the tracking applied")
    for v in c["per"]:
        ctx.prove(ctx.le(v, wl.max_volume), "C13: a volume above max_volume was accepted")


def judge_wash(ctx, c, name, args):
    if name != "Wash" or len(args) != 16:
        ctx.violate(f"C13: wash command malformed ({name}, {len(args)} arguments)")
        return
    I = c["ints"]
    f = [evoscript.unq(a) for a in args]
    vals = [ctx.int_field(x) if i not in (5, 7) else ctx.field(x)[0] for i, x in enumerate(f)]
    want = [None, I["wg"], I["ws"] - 1, I["cg"], I["cs"] - 1, None, I["waste_delay"], None, I["cleaner_delay"], I["airgap"], I["airgap_speed"], I["retract_speed"],
            I["fastwash"], I["low_volume"], 1000, I["arm"]]
    for i, w in enumerate(want):
        if w is not None:
            ctx.prove(ctx.eq(vals[i], w), f"C13: wash command argument {i} is not the documented parameter")
    ctx.prove(ctx.within(vals[5], c["wv"], Fraction(1, 20)), "C13: waste volume field differs from the argument by more than one-decimal rounding")
    ctx.prove(ctx.within(vals[7], c["cv"], Fraction(1, 20)), "C13: cleaner volume field differs from the argument by more than one-decimal rounding")
    rng = [(I["wg"], 1, 67), (I["ws"], 1, 128), (I["cg"], 1, 67), (I["cs"], 1, 128), (I["arm"], 0, 1), (c["wv"], 0, 100), (I["waste_delay"], 0, 1000), (c["cv"], 0, 100),
           (I["cleaner_delay"], 0, 1000), (I["airgap"], 0, 100), (I["airgap_speed"], 1, 1000), (I["retract_speed"], 1, 100), (I["fastwash"], 0, 1), (I["low_volume"], 0, 1)]
    ctx.prove(ctx.all_of([ctx.all_of([ctx.le(lo, v), ctx.le(v, hi)]) for v, lo, hi in rng]), "C13: an out-of-range wash parameter was accepted")
    # tip mask = OR of the distinct tips
    mask = int(f[0])
    nums = []
    for t in c["tips"]:
        val = None
        for n in range(1, 9):
            if (ctx.is_true(t == n) if ctx.symbolic else t == n):
                val = n
        nums.append(val)
    if any(n is None for n in nums):
        ctx.violate("C13: wash accepted tips that are not pinned to 1..8")
        return
    wantm = 0
    for n in set(nums):
        wantm |= 1 << (n - 1)
    if mask != wantm:
        ctx.violate(f"C13: wash tip mask {mask} is not the OR {wantm} of the tips {nums}")


def describe(ctx, p, outcome):
    c = ctx.ctx
    lab = c.get("lab")
    s = f"  {p} earlier command={c.get('earlier')}; wells={c.get('wells')} tips={c.get('tips')!r} volumes={c.get('vols')!r} grid/site/arm={c.get('grid')},{c.get('site')},{c.get('arm')}"
    if lab is not None:
        s += f"\n  pre={ {k: float(v) for k, v in c['pre'].items()} } post={lab.volumes.tolist()} min={lab.min_volume} max={lab.max_volume}"
    if "ints" in c:
        s += f"\n  wash ints={c['ints']} waste_vol={c['wv']} cleaner_vol={c['cv']}"
    return s + f"\n  records={list(c['wl'])}"
