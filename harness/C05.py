"""C05 - composition tracking equals ideal volumetric mixing and conserves components."""
from harness import common, wlops

ID = "C05"
BOUNDS = {
    "quick": "one operation from an arbitrary normalised state: every real well holds a symbolic volume >= 0 and a two-component mixture (f, 1-f) with "
             "symbolic f in [0,1], or is a never-filled well (volume 0, no component); operations: Labware.add / worklist dispense with a symbolic "
             "incoming two-component composition (one shared, one new component), transfer between two labware / within one labware / within one "
             "well (k=1, <=2 split steps; k=2 without splitting), distribute to 1-2 wells, aspirate; volumes >= 0 symbolic (the zero-volume classes are "
             "decided by the solver); both devices; plate 2x2 / trough 2x2; plus the constructors with symbolic initial volumes (one-hot initial state, naming); add / dispense of two entries with their own volumes (>= 0) and different compositions into two wells or into ONE real well (id repeated / two virtual rows)",
    "thorough": "k=1 with <=2 split steps on every labware pair, k=2 (2 candidate wells per slot, no splitting) on every labware pair and both devices",
}
OUTSIDE = ">3 components, >2 operations in sequence (covered inductively), float rounding (exact real arithmetic; division by a possibly-zero numpy scalar is reported as a non-finite outcome)"
ASSUMPTIONS = ["representation invariant of the pre-state: fractions in [0,1]; they sum to 1 in wells that hold or ever held liquid and to 0 in never-filled wells (volume 0)",
               "non-linear real arithmetic (z3 nlsat); unknown is inconclusive"]

NAMES = ("X", "Y")


def shards(tier):
    out = []
    for geo in ("p2x2", "t2x2"):
        for op in ("add", "dispense", "aspirate"):
            out.append(dict(op=op, sgeo=geo, dgeo=geo, k=1 if op != "aspirate" else 2, steps=1, dev="evo"))
        for op in ("add", "dispense"):
            # one call addressing two wells with their own volumes (>= 0) and their own, different compositions
            out.append(dict(op=op, sgeo=geo, dgeo=geo, k=2, multi=True, steps=1, dev="evo"))
    for dev in ("evo", "fluent"):
        for sg, dg, same in [("p2x2", "p2x2", False), ("t2x2", "p2x2", False), ("p2x2", "t2x2", False), ("p2x2", "p2x2", True), ("t2x2", "t2x2", True)]:
            split = tier == "thorough" or (sg, dg, same) == ("p2x2", "p2x2", False)
            out.append(dict(op="transfer", dev=dev, sgeo=sg, dgeo=dg, same=same, k=1, steps=2 if split else 1, partition_by="auto", washes=[1],
                            ncand=2 if tier == "quick" else 4, wl_max="sym" if split else common.BIG * 2))
            if (dev == "evo" and (sg, dg, same) == ("t2x2", "t2x2", True)) or tier == "thorough":
                # k=2 with composition tracking and splitting did not finish within 50 min per shard: no splitting for k=2
                out.append(dict(op="transfer", dev=dev, sgeo=sg, dgeo=dg, same=same, k=2, steps=1, partition_by="auto", washes=[1], ncand=2,
                                wl_max=common.BIG * 2))
        # chained: a well that is first a destination and then a source within one call
        out.append(dict(op="transfer", dev=dev, sgeo="p3x2", dgeo="p3x2", same=True, k=2, steps=1, partition_by="auto", washes=[1], cands=[[0, 1], [1, 2]], wl_max=common.BIG * 2))
        out.append(dict(op="distribute", dev=dev, sgeo="t2x2", dgeo="p2x2", k=1, steps=1, dsels=[[0], [0, 3]]))
        out.append(dict(op="distribute", dev=dev, sgeo="t2x2", dgeo="t2x2", same=True, k=1, steps=1, dsels=[[2], [0]]))
    # three transfers in sequence between a trough and a plate, through different virtual rows of one trough column:
    # out via row B, in via row A, out via row B again (a per-well-id cache of compositions would go stale)
    T = dict(op="transfer", k=1, washes=[1], partition_by="auto")
    for dev in ("evo", "fluent"):
        out.append(dict(op="seq", dev=dev, sgeo="t2x2", dgeo="p2x2", k=1, steps=1, wl_max=common.BIG * 2,
                        ops=[dict(T, cands=[[1], [0]]), dict(T, reverse=True, cands=[[0], [0]]), dict(T, cands=[[1], [3]])]))
    for kind in ("plate2x2", "plate1x1", "plate1x2", "trough2x2", "trough3x1"):
        out.append(dict(op="init", kind=kind, k=1, steps=1))
    return out


common.GEO.setdefault("t2x2", ("trough", 2, 2))


def weight(p):
    return p["k"] ** 3 * p["steps"]


def engine_opts(p, tier):
    return dict(mode="real", int_lo=1, int_hi=p["steps"], rlimit=80_000_000)


def witnesses(tier):
    return {"ok:add", "ok:transfer", "ok:distribute", "ok:aspirate", "ok:seq", "init:ok", "init:rejected", "empty-destination"}


def poke_composition(ctx, lab, name):
    """arbitrary normalised composition state; returns {(r,c): {comp: fraction}}"""
    np = ctx.np
    comp = {n: np.zeros_like(lab.volumes) for n in NAMES}
    pre = {}
    for (r, c) in common.real_wells(lab):
        kind = ctx.choose(f"{name}_state{r}{c}", ["mixed", "never"]) if (r, c) == (0, 0) else "mixed"
        if kind == "never":
            ctx.assume(ctx.eq(lab._volumes[r, c], 0))
            pre[(r, c)] = {n: 0.0 for n in NAMES}
            continue
        f = ctx.real(f"{name}_f{r}_{c}", 0, 1)
        comp["X"][r, c] = f
        comp["Y"][r, c] = 1 - f
        pre[(r, c)] = {"X": f, "Y": 1 - f}
    lab._composition = comp
    return pre


def scenario(ctx, p):
    ns = common.rt()
    if p["op"] == "init":
        return scenario_init(ctx, p, ns)
    q = dict(p)
    direct = p["op"] == "add"
    if direct:
        q["op"] = "dispense"
    q["filled"] = False
    W = wlops.build(ctx, q)
    W.fpre = {}
    for name, lab in W.labs.items():
        for k_, v in poke_composition(ctx, lab, name).items():
            W.fpre[(name, k_)] = v
    ctx.ctx["W"] = W
    if p["op"] in ("add", "dispense"):
        lab = W.dst
        ids = common.all_ids(lab)
        well = ctx.choose("well0", [ids[0], ids[-1]])
        x = ctx.real("x0", 0, common.BIG)
        g = ctx.real("g", 0, 1)
        inc = {"X": g, "Z": 1 - g}
        W.cfg = (p["op"], well)
        if p.get("multi"):
            well1 = ids[-1] if well == ids[0] else ids[0]
            if ctx.choose("same_cavity", [False, True]):
                # both entries address ONE real well: the id repeated (plate) / another virtual row of the same trough column
                kind_ = common.GEO[p["dgeo"]][0]
                well1 = well if kind_ == "plate" else (ids[1] if well == ids[0] else ids[-2])
            x1 = ctx.real("x1", 0, common.BIG)
            inc1 = {"Y": 1.0}
            W.named = [(lab.name, well, 1, x), (lab.name, well1, 1, x1)]
            W.incoming = [inc, inc1]
            if direct:
                lab.add([well, well1], [x, x1], compositions=[inc, inc1])
            else:
                W.wl.dispense(lab, [well, well1], [x, x1], compositions=[inc, inc1])
        else:
            W.named = [(lab.name, well, 1, x)]
            W.incoming = [inc]
            if direct:
                lab.add(well, x, compositions=[inc])
            else:
                W.wl.dispense(lab, well, x, compositions=[inc])
    elif p["op"] == "seq":
        W.p = p
        wlops.run_seq(ctx, W, p["ops"])
    else:
        W.p = p
        wlops.run(ctx, W)
    return W


def scenario_init(ctx, p, ns):
    kind = p["kind"]
    named = ctx.choose("named", [False, True])
    if kind.startswith("plate"):
        R, C = int(kind[5]), int(kind[7])
        iv = [[ctx.real(f"iv{r}_{c}", 0, 100) for c in range(C)] for r in range(R)]
        names = {"A01": "water"} if named else None
        ctx.ctx.update(kind=kind, R=R, C=C, iv=iv, names=names, trough=False)
        return ns.Labware("L", R, C, min_volume=0, max_volume=100, initial_volumes=iv, component_names=names)
    V, C = int(kind[6]), int(kind[8])
    iv = [ctx.real(f"iv{c}", 0, 100) for c in range(C)]
    names = (["water"] + [None] * (C - 1)) if named else None
    ctx.ctx.update(kind=kind, R=1, C=C, iv=[iv], names=names, trough=True, V=V)
    return ns.Trough("L", V, C, min_volume=0, max_volume=100, initial_volumes=iv, column_names=names)


def judge_init(ctx, p, outcome):
    kind, val = outcome
    c = ctx.ctx
    R, C, iv = c["R"], c["C"], c["iv"]
    named = c["names"] is not None
    if kind == "exc":
        if not isinstance(val, ValueError):
            ctx.violate(f"C05: constructor raised {type(val).__name__}: {val}")
            return
        ctx.reach("init:rejected")
        # only a name for an empty well may be refused here
        ctx.prove(ctx.eq(iv[0][0], 0) if named else False, "C05: constructor rejected a valid naming specification")
        return
    lab = val
    ctx.reach("init:ok")
    comp = lab.composition
    owners = {}
    for r in range(R):
        for cc in range(C):
            holders = [k for k, arr in comp.items() if not (isinstance(arr[r, cc], (int, float)) and arr[r, cc] == 0)]
            tot = 0
            for k in comp:
                tot = tot + comp[k][r, cc]
                ctx.prove(ctx.any_of([ctx.eq(comp[k][r, cc], 0), ctx.eq(comp[k][r, cc], 1)]), "C05: initial fraction is neither 0 nor 1")
            ctx.prove(ctx.eq(tot, ctx.ite(iv[r][cc] > 0, 1, 0)), f"C05: well ({r},{cc}) is not 100 % one component exactly when it is initially filled")
            for k in holders:
                owners.setdefault(k, []).append((r, cc))
    # naming: explicit name used; defaults distinct per well (multi-row plate) / per column (multi-column trough); labware name for single-well
    for k, ws in owners.items():
        if named and k == "water":
            if ws != [(0, 0)]:
                ctx.violate(f"C05: explicit component name shared by wells {ws}")
            continue
        multi = (R > 1) if not c["trough"] else (C > 1)
        if multi and len(ws) > 1:
            ctx.violate(f"C05: default component name {k!r} is shared by wells {ws}")
        if R * C == 1 and k != "L":
            ctx.violate(f"C05: single-well labware uses component name {k!r} instead of the labware name")
    if named:
        ctx.prove(ctx.implies(iv[0][0] > 0, "water" in comp and ctx.eq(comp["water"][0, 0], 1)) if "water" in comp else ctx.eq(iv[0][0], 0), "C05: explicit component name not used for its filled well")


def judge(ctx, p, outcome):
    kind, val = outcome
    if p["op"] == "init":
        if kind in ("ok", "exc"):
            judge_init(ctx, p, outcome)
        return
    W = ctx.ctx.get("W")
    NONFIN = "C05: a composition fraction becomes non-finite (division by a zero total volume)"
    if kind == "nonfinite":
        ctx.reach("empty-destination")
        ctx.violate(NONFIN, info=str(val))
        return
    if kind != "ok":
        return
    if not ctx.symbolic:
        import math
        for name, lab in W.labs.items():
            for k_, arr in (lab.composition or {}).items():
                if any(math.isnan(float(x)) or math.isinf(float(x)) for x in arr.flatten()):
                    ctx.violate(NONFIN, info=f"{name}.{k_} = {arr.tolist()}")
                    return
    op = p["op"]
    ctx.reach(f"ok:{op}")
    names = set(NAMES) | {"Z"}
    # post fractions
    post = {}
    for name, lab in W.labs.items():
        for w in common.real_wells(lab):
            post[(name, w)] = {n: (lab.composition[n][w] if n in lab.composition else 0) for n in names}
            if set(lab.composition) - names:
                ctx.violate(f"C05: unexpected component names {sorted(set(lab.composition) - names)}")
    moved = {}   # (name, well) -> net requested change
    for rack, wid, sign, v in W.named:
        key = (rack, W.geo[rack].real_of(wid))
        moved.setdefault(key, []).append((sign, v))
    for key, fr in post.items():
        name, w = key
        lab = W.labs[name]
        vol = lab._volumes[w]
        tot = 0
        rng = []
        for n in sorted(names):
            f = fr[n]
            rng += [ctx.le(0, f), ctx.le(f, 1)]
            tot = tot + f
        ctx.prove(ctx.all_of(rng), f"C05: a fraction in {name}{w} is outside [0, 1]")
        ctx.prove(ctx.implies(vol > 0, ctx.eq(tot, 1)), f"C05: fractions in the non-empty well {name}{w} do not sum to 1")
        signs = {s for s, _ in moved.get(key, [])}
        if signs <= {-1}:
            # only removals (or untouched): composition unchanged
            ctx.prove(ctx.all_of([ctx.eq(fr[n], W.fpre[key].get(n, 0)) for n in sorted(names)]), f"C05: composition of {name}{w} changed although liquid was only removed (or the well was not addressed)")
    # exact mixing for add/dispense of a known composition
    if op in ("add", "dispense"):
        per_key = {}
        for (rack, wid, _, x), incoming in zip(W.named, W.incoming):
            per_key.setdefault((rack, W.geo[rack].real_of(wid)), []).append((x, incoming))
        for key, parts in per_key.items():   # several entries may address one real well: sequential mixing = one volume-weighted mixture
            v = W.pre[key]
            X = 0
            for x, _ in parts:
                X = X + x
            if ctx.symbolic and ctx.check(ctx_term(ctx, v + X == 0)) == "sat":
                ctx.reach("empty-destination")
            for n in sorted(names):
                amount = v * W.fpre[key].get(n, 0)
                for x, incoming in parts:
                    amount = amount + x * incoming.get(n, 0)
                ctx.prove(ctx.implies(v + X > 0, ctx.eq(post[key][n] * (v + X), amount)), f"C05: fraction of {n} after {op} differs from the volume-weighted mixture")
    # conservation of every component by transfers / distributions
    if op in ("transfer", "distribute", "seq"):
        for n in sorted(names):
            before = after = 0
            for key in post:
                before = before + W.pre[key] * W.fpre[key].get(n, 0)
                after = after + W.labs[key[0]]._volumes[key[1]] * post[key][n]
            ctx.prove(ctx.eq(before, after), f"C05: total amount of component {n} is not conserved by {op}")
        # exact mixing for single-step moves between distinct wells
        if op == "transfer" and p["k"] == 1 and sum(1 for r in W.wl if r.startswith("A;")) == 1:
            (s_, d_, x), = W.pairs
            ks, kd = ("S", W.geo["S"].real_of(s_)), (W.dst.name, W.geo[W.dst.name].real_of(d_))
            if ks != kd:
                vd = W.pre[kd]
                for n in sorted(names):
                    ctx.prove(ctx.eq(post[kd][n] * (vd + x), vd * W.fpre[kd].get(n, 0) + x * W.fpre[ks].get(n, 0)), f"C05: fraction of {n} in the destination differs from the volume-weighted mixture")
            else:
                for n in sorted(names):
                    ctx.prove(ctx.eq(post[kd][n], W.fpre[kd].get(n, 0)), "C05: mixing a well with itself changed its composition")


def ctx_term(ctx, cond):
    from symex import core
    return core.as_term(cond)


def describe(ctx, p, outcome):
    W = ctx.ctx.get("W")
    if W is None:
        c = ctx.ctx
        return f"  constructor {p.get('kind')} initial_volumes={c.get('iv')} names={c.get('names')} -> {outcome[0]} {outcome[1] if outcome[0] == 'exc' else getattr(outcome[1], 'composition', None)}"
    from harness import C01
    out = C01.describe(ctx, p, outcome)
    out += f"\n  pre fractions={ {k: {n: float(f) for n, f in v.items()} for k, v in W.fpre.items()} } incoming={getattr(W, 'incoming', None)}"
    for n, lab in W.labs.items():
        out += f"\n  post composition[{n}]={ {k: v.tolist() for k, v in (lab.composition or {}).items()} }"
    return out
