"""C02 - volume limits are enforced on every tracked operation."""
from harness import common, lwops, wlops

ID = "C02"
BOUNDS = {
    "quick": "(A) Real arithmetic: one Labware.add/remove with k<=2 addressed wells (repeats, trough aliases, scalar/list volumes of any sign) from an "
             "arbitrary valid state, plate 2x2 and trough 3x2; (B) IEEE-754 binary64, bit-precise: one add/remove addressing one well of a plate 1x2 / "
             "trough 2x1 with v, volume, min_volume, max_volume ranging over all doubles (state finite, volume incl. +-inf and NaN): decides exact-limit and "
             "one-ulp cases; (C) every worklist entry point (aspirate, dispense, transfer with splitting, distribute, evo_aspirate, evo_dispense) on both "
             "devices with k<=2: post-conditions on normal return and exception type on rejection; (A') the same with the state built by the public constructor from integer-valued initial volumes (list of ints / int scalar) and symbolic limits",
    "thorough": "(A) k<=3 and plates 2x3/8x2, trough 8x1; (B) additionally plate 2x2 with the second well addressed as well (Real only for repeats); (C) k<=2 with 4 candidates, <=3 split steps",
}
OUTSIDE = "states with max_volume = inf (constructor accepts them: C20); rounding effects of >=2 chained float additions on one well (decided in Real arithmetic only); k beyond the bound"
ASSUMPTIONS = ["inductive step from an arbitrary valid state (histories of any length)", "FP part: z3 FloatingPoint theory, RNE rounding = CPython/numpy float64 semantics"]


def shards(tier):
    out = []
    geosA = ["p2x2", "t3x2"] + (["p2x3", "p8x2", "t8x1"] if tier == "thorough" else [])
    for geo in geosA:
        for op in ("add", "remove"):
            out.append(dict(part="A", geo=geo, op=op, shapes=["list", "list-scalar", "scalar-id"], k=2 if tier == "quick" else 3, vlo=None))
    # state built by the public constructor from integer-valued initial volumes (list of ints / int scalar): stored volumes stay exact
    for geo in ["p2x2", "t3x2"]:
        for op in ("add", "remove"):
            out.append(dict(part="A", geo=geo, op=op, shapes=["list", "scalar-id"], k=1 if tier == "quick" else 2, vlo=None, ctor="ints"))
    for geo in ["p1x2", "t2x1"]:
        for op in ("add", "remove"):
            for sel in ("limit", "state", "post", "exc"):   # one shard per claim family: the bit-precise queries run in parallel
                out.append(dict(part="B", geo=geo, op=op, shapes=["scalar-id"], k=1, vlo=None, sel=sel))
    for dev in ("evo", "fluent"):
        for sg, dg in [("p2x2", "t3x2"), ("t3x2", "p2x2")]:
            for op in ("aspirate", "dispense", "transfer", "distribute", "evo_aspirate", "evo_dispense"):
                if op == "distribute" and not sg.startswith("t"):
                    continue
                if op.startswith("evo_") and dev != "evo":
                    continue
                out.append(dict(part="C", dev=dev, op=op, sgeo=sg, dgeo=dg, k=2 if op != "distribute" else 1, steps=2 if tier == "quick" else 3,
                                ncand=2 if tier == "quick" else 4, washes=[1], partition_by="auto"))
        # transfer within one labware into the same cavity (same well / another virtual row of the column): the removal is still checked
        for sg, cands in (("p2x2", [[0], [0]]), ("t3x2", [[0], [1]])):
            out.append(dict(part="C", dev=dev, op="transfer", sgeo=sg, dgeo=sg, same=True, k=1, steps=1, washes=[1], partition_by="auto", cands=cands,
                            wl_max=common.BIG * 2, same_cavity=True))
        # distribute within ONE trough: the source column is also a destination, followed by a cavity that may overflow
        out.append(dict(part="C", dev=dev, op="distribute", sgeo="t3x2", dgeo="t3x2", same=True, k=1, steps=1, washes=[1], partition_by="auto",
                        uniq_dev="none", dsels=[[0, 3], [3, 0], [1, 4]]))
    return out


common.GEO.setdefault("p1x2", ("plate", 1, 2))
common.GEO.setdefault("t2x1", ("trough", 2, 1))


def weight(p):
    return {"A": 2, "B": 50, "C": 10}[p["part"]]


def engine_opts(p, tier):
    if p["part"] == "B":
        return dict(mode="fp", lazy=True, rlimit=0, timeout_ms=600_000)
    return dict(mode="real", int_lo=1, int_hi=p.get("steps", 3))


def witnesses(tier):
    return {"ok", "exc:VolumeOverflowError", "exc:VolumeUnderflowError", "exc:other", "C:ok", "C:exc:VolumeOverflowError", "C:exc:VolumeUnderflowError"}


def scenario(ctx, p):
    if p["part"] in ("A", "B"):
        if p.get("ctor") == "ints":
            ns = common.rt()
            kind, R, C = common.GEO[p["geo"]]
            vmin, vmax = ctx.real("L_min", 0), ctx.real("L_max", None, common.BIG)
            ctx.assume(vmax > vmin)
            ctx.assume(vmax >= 20)
            if kind == "plate":
                lab = ns.Labware("L", R, C, min_volume=vmin, max_volume=vmax, initial_volumes=[[10] * C for _ in range(R)])
            else:
                lab = ns.Trough("L", R, C, min_volume=vmin, max_volume=vmax, initial_volumes=20)
            pre = {("L", w): (10 if kind == "plate" else 20) for w in common.real_wells(lab)}
        else:
            lab, g, pre = common.make_labware(ctx, "L", p["geo"], filled=False)
        if ctx.mode == "fp":
            ctx.assume(ctx.finite(lab.max_volume))
        wells, vols, pairs, shape = lwops.build_args(ctx, lab, p)
        if ctx.mode == "fp" and ctx.symbolic:
            import z3
            from symex import core
            x = pairs[0][1]
            # NaN is its own case
            if ctx.choose("nan", [False, True]):
                ctx.add(z3.fpIsNaN(x.t))
            else:
                ctx.add(z3.Not(z3.fpIsNaN(x.t)))
        ctx.ctx.update(lab=lab, pre={k[1]: v for k, v in pre.items()}, pairs=pairs, shape=shape)
        getattr(lab, p["op"])(wells, vols)
        return lab
    W = wlops.build(ctx, p)
    ctx.ctx["W"] = W
    wlops.run(ctx, W)
    return W


def judge(ctx, p, outcome):
    kind, val = outcome
    if kind not in ("ok", "exc"):
        return
    ns = common.rt()
    if p["part"] in ("A", "B"):
        c = ctx.ctx
        sign = 1 if p["op"] == "add" else -1
        lwops.check_sequential(ctx, c["lab"], common.GEO[p["geo"]][0], c["pre"], c["pairs"], sign, outcome, ns, "C02", sel=p.get("sel"))
        if p.get("sel") not in (None, "post"):
            return
        if kind == "ok":
            for w in c["pre"]:
                ctx.prove(ctx.finite(c["lab"]._volumes[w]), "C02: non-finite volume after a normal return")
        elif not isinstance(val, ns.VolumeViolationException):
            # any other rejection (negative / NaN volume): state unchanged
            ctx.prove(ctx.all_of([ctx.eq(c["lab"]._volumes[w], v) for w, v in c["pre"].items()]), "C02: rejected call changed the state")
        return
    W = ctx.ctx["W"]
    if kind == "ok":
        ctx.reach("C:ok")
        if p.get("same_cavity"):
            # one unsplit step out of and back into one cavity: the aspiration must have been acceptable on its own
            (rack, wid, _, v) = [x for x in W.named if x[2] < 0][0]
            key = (rack, W.geo[rack].real_of(wid))
            ctx.prove(ctx.implies(v > 0, ctx.le(W.labs[rack].min_volume, W.pre[key] - v)),
                      "C02: a removal that undercuts min_volume returned normally (transfer into the same cavity)")
        added, removed, amount = set(), set(), {}
        for rack, wid, sign, v in W.named:
            key = (rack, W.geo[rack].real_of(wid))
            (added if sign > 0 else removed).add(key)
            if sign < 0:
                amount[key] = amount.get(key, 0) + v
        for (rack, w) in W.pre:
            v = W.labs[rack]._volumes[w]
            ctx.prove(ctx.le(0, v), f"C02: negative volume after {p['op']} returned normally")
            if (rack, w) in added and (rack, w) not in removed:
                ctx.prove(ctx.le(v, W.labs[rack].max_volume), f"C02: well above max_volume after {p['op']} returned normally")
            if (rack, w) in removed and (rack, w) not in added:
                # only a well that liquid was actually removed from is constrained (wells may start below min_volume)
                ctx.prove(ctx.implies(amount[(rack, w)] > 0, ctx.le(W.labs[rack].min_volume, v)), f"C02: well below min_volume after {p['op']} removed liquid from it and returned normally")
    elif isinstance(val, ns.VolumeViolationException):
        ctx.reach("C:exc:" + type(val).__name__)
        # an overflow can only come from a well that liquid is added to, an underflow from one it is removed from
        has_add = any(s > 0 for _, _, s, _ in W.named)
        has_rem = any(s < 0 for _, _, s, _ in W.named)
        if isinstance(val, ns.VolumeOverflowError) and not has_add:
            ctx.violate("C02: VolumeOverflowError from an operation that adds nothing")
        if isinstance(val, ns.VolumeUnderflowError) and not has_rem:
            ctx.violate("C02: VolumeUnderflowError from an operation that removes nothing")
        for (rack, w), v0 in W.pre.items():
            ctx.prove(ctx.le(0, W.labs[rack]._volumes[w]), "C02: negative volume after a rejected operation")
            # the state a rejected operation leaves behind is a reachable state: it must satisfy the invariant the induction starts from
            ctx.prove(ctx.le(W.labs[rack]._volumes[w], W.labs[rack].max_volume), "C02: a well is above max_volume after a rejected operation (every later operation starts from this state)")


def describe(ctx, p, outcome):
    if p["part"] == "C":
        from harness import C01
        return C01.describe(ctx, p, outcome)
    from harness import C04
    return C04.describe(ctx, p, outcome)
