"""C06 - large-volume handling: splitting is complete, bounded and minimal."""
from harness import common, wlops
from oracles import gwl

ID = "C06"
BOUNDS = {
    "quick": "(a) partition_volume(v, max_volume=m) in exact real arithmetic, v>=0 and m>0 symbolic, <=8 steps; (b) the same function bit-precisely in "
             "IEEE-754 binary64 for <=2 steps with integer-valued m in [1,1000] and 0<=v<=1e15; (c) EvoWorklist/FluentWorklist.transfer of one symbolic "
             "volume with symbolic worklist max_volume, <=4 steps, auto_split on and off, plate/trough combinations; (d) reagent_distribution with "
             "multi_disp 1..8 and symbolic volume / max_volume; (c') the same transfer after ANOTHER worklist (other device, own symbolic max_volume) has transferred a symbolic volume earlier in the same process",
    "thorough": "(a) <=16 steps; (b) <=3 steps; (c) <=6 steps and two volumes per call; (d) multi_disp 1..12",
}
OUTSIDE = "more steps than the bound; in binary64 arithmetic: non-integer max_volume and volumes needing more steps than stated (Real arithmetic covers them exactly)"
ASSUMPTIONS = ["(b) assumes |v| <= 1e15 so that integer-valued doubles model Python ints exactly"]
from fractions import Fraction

HALF_CENT = Fraction(1, 200)   # exact: the float 0.005*n is not the rational n/200


def shards(tier):
    out = [dict(part="a", steps=8 if tier == "quick" else 16)]
    for sel in ("count", "positive", "le_max"):   # one shard per claim family: the FP queries run in parallel
        out.append(dict(part="b", steps=2, mkind="int", sel=sel))
        if tier == "thorough":
            out.append(dict(part="b", steps=3, mkind="int", sel=sel))
    for dev in ("evo", "fluent"):
        for sg, dg in [("p2x2", "p2x2"), ("t3x2", "p2x2"), ("p2x2", "t3x2")]:
            for auto in (True, False):
                out.append(dict(part="c", dev=dev, op="transfer", sgeo=sg, dgeo=dg, k=1, steps=4 if tier == "quick" else 6, auto_split=auto,
                                partition_by="auto", washes=[1], ncand=2))
            # two triples (repeated source / destination wells included): each is split on its own
            out.append(dict(part="c", dev=dev, op="transfer", sgeo=sg, dgeo=dg, k=2, steps=2 if tier == "quick" else 3, auto_split=True, partition_by="auto", washes=[1], ncand=2))
        if dev == "evo":
            # the deprecated robotools.Worklist class must honour the same options
            for auto in (True, False):
                out.append(dict(part="c", dev="legacy", op="transfer", sgeo="p2x2", dgeo="p2x2", k=1, steps=3, auto_split=auto, partition_by="auto", washes=[1], ncand=1))
        # history: another worklist (other device, its own max_volume) split some volume earlier in the same process
        out.append(dict(part="c", dev=dev, op="transfer", sgeo="p2x2", dgeo="p2x2", k=1, steps=2, auto_split=True, partition_by="auto", washes=[1], ncand=1,
                        earlier=True))
        out.append(dict(part="d", dev=dev, mds=list(range(1, 9 if tier == "quick" else 13))))
    return out


def weight(p):
    return {"a": 5, "b": 100, "c": 10, "d": 5}[p["part"]]


def engine_opts(p, tier):
    if p["part"] == "b":
        return dict(mode="fp", lazy=True, rlimit=0, timeout_ms=900_000, int_lo=1, int_hi=p["steps"])
    if p["part"] == "d":
        return dict(mode="real", int_lo=0, int_hi=max(p["mds"]) + 1)
    return dict(mode="real", int_lo=1, int_hi=p["steps"])


def witnesses(tier):
    return {"a:empty", "a:single", "a:split", "b:split", "c:split", "c:refused", "d:reduced", "d:kept"}


def scenario(ctx, p):
    part = p["part"]
    if part in ("a", "b"):
        from robotools.worklists.utils import partition_volume
        if part == "b":
            v = ctx.real("v", 0, 1e15)
            m = ctx.real("m", 1, 1000)
            if ctx.symbolic:
                import z3
                from symex import core
                ctx.add(z3.fpEQ(z3.fpRoundToIntegral(z3.RNE(), m.t), m.t))
        else:
            v = ctx.real("v", 0)
            m = ctx.real("m")
            ctx.assume(m > 0)
        ctx.ctx.update(v=v, m=m)
        return partition_volume(v, max_volume=m)
    if part == "c":
        if p.get("earlier"):
            E = wlops._Prefixed(ctx, "e:")
            W0 = wlops.build(E, dict(p, dev="fluent" if p["dev"] in ("evo", "legacy") else "evo"))
            try:
                wlops.run(E, W0)
            except Exception:  # noqa: BLE001
                pass
            ctx.ctx["W0"] = W0
        W = wlops.build(ctx, p)
        ctx.ctx["W"] = W
        wlops.run(ctx, W)
        return W
    wl = common.make_worklist(ctx, p["dev"], ctx.real("wl_max"))
    ctx.assume(wl.max_volume > 0)
    v = ctx.real("v", 0)
    ctx.assume(v > 0)
    md = ctx.choose("multi_disp", p["mds"])
    ctx.ctx.update(wl=wl, v=v, md=md)
    if ctx.choose("earlier", [None, "same-call"]) is not None:
        # history: the same worklist already holds an identical (equally adapted) reagent distribution
        ctx.ctx["earlier"] = True
        try:
            wl.reagent_distribution("S0", 1, 8, "D0", 1, 8, volume=v, multi_disp=md)
        except Exception:  # noqa: BLE001
            pass
    wl.reagent_distribution("S", 1, 8, "D", 1, 8, volume=v, multi_disp=md)
    return wl


def judge(ctx, p, outcome):
    kind, val = outcome
    part = p["part"]
    c = ctx.ctx
    ns = common.rt()
    if kind not in ("ok", "exc"):
        return
    if part in ("a", "b"):
        v, m = c["v"], c["m"]
        if kind == "exc":
            ctx.violate(f"C06: partition_volume raised {type(val).__name__}: {val}")
            return
        vols = list(val)
        n = len(vols)
        ctx.reach(f"{part}:" + ("empty" if n == 0 else "single" if n == 1 else "split"))
        sel = p.get("sel")
        if sel in (None, "count"):
            ctx.prove(ctx.eq(v, 0) if n == 0 else ctx.lt(0, v), "C06: partition_volume returns [] exactly for volume 0")
        if n:
            # n == max(1, ceil(v/m))  <=>  (n-1)*m < v <= n*m  (or n == 1 and v <= m)
            if sel in (None, "count"):
                ctx.prove(ctx.le(v, n * m), "C06: fewer steps than ceil(v/max_volume)")
                if n > 1:
                    ctx.prove(ctx.lt((n - 1) * m, v), "C06: more steps than ceil(v/max_volume)")
            tot = 0
            for i, s in enumerate(vols):
                if sel in (None, "positive"):
                    ctx.prove(ctx.lt(0, s), f"C06: step {i} of {n} is not positive")
                if sel in (None, "le_max"):
                    ctx.prove(ctx.le(s, m), f"C06: step {i} of {n} exceeds max_volume")
                tot = tot + s
            if part == "a":
                ctx.prove(ctx.eq(tot, v), "C06: steps do not add up to the requested volume")
        return
    if part == "c":
        W = c["W"]
        v = W.pairs[0][2] if p["k"] == 1 else None
        m = W.wl_max
        if kind == "exc":
            if isinstance(val, ns.InvalidOperationError):
                ctx.reach("c:refused")
                if p["auto_split"]:
                    ctx.violate("C06: an automatically split transfer was refused with InvalidOperationError")
                else:
                    ctx.prove(ctx.any_of([ctx.lt(m, x) for _, _, x in W.pairs]), "C06: InvalidOperationError although no step exceeds max_volume")
            return
        recs = list(W.wl)
        try:
            sim = wlops.simulate(ctx, W)
        except gwl.OracleReject as ex:
            ctx.violate(f"C06: records not executable: {ex}")
            return
        A = [s for s in sim.steps if s[0] == "A"]
        D = [s for s in sim.steps if s[0] == "D"]
        if len(A) != len(D):
            ctx.violate("C06: unequal number of aspirate and dispense records")
            return
        for s in A + D:
            ex = s[5] if s[5] is not None else s[4]
            ctx.prove(ctx.lt(0, ex) if s[5] is not None else ctx.le(0, ex), "C06: emitted step is not positive")
            ctx.prove(ctx.le(ex if s[5] is not None else ex - HALF_CENT, m), "C06: emitted step exceeds the worklist max_volume")
        if p["k"] > 1:
            # per (source position, destination position): the pairs emitted for the triples of this pair are exactly their ceil(v/m) steps
            gs, gd = W.geo["S"], W.geo[W.dst.name]
            by = {}
            for s_, d_, x in W.pairs:
                by.setdefault((gs.encode(s_, W.dev), gd.encode(d_, W.dev)), []).append(x)
            cnt = {}
            for a_, d_ in zip(A, D):
                cnt[(a_[3], d_[3])] = cnt.get((a_[3], d_[3]), 0) + 1
            for key, xs in by.items():
                n = cnt.get(key, 0)
                tot = 0
                for x in xs:
                    tot = tot + x
                # n pairs carry volumes <= m each and add up to the requested total: n >= total/m; and n <= sum of per-triple ceilings < total/m + len(xs)
                ctx.prove(ctx.le(tot, n * m), "C06: fewer pairs than needed for the requested volumes of one well pair")
                ctx.prove(ctx.any_of([ctx.eq(tot, 0) if n == 0 else False, ctx.lt((n - len(xs)) * m, tot)]) if n else ctx.eq(tot, 0), "C06: more pairs than ceil(v/max_volume) per triple")
        if p["k"] == 1:
            n = len(A)
            if n > 1:
                ctx.reach("c:split")
            if not p["auto_split"]:
                ctx.prove(ctx.le(v, m), "C06: oversized step emitted although auto_split is off")
            if n == 0:
                ctx.prove(ctx.eq(v, 0), "C06: nothing emitted for a positive volume")
            else:
                ctx.prove(ctx.lt(0, v), "C06: records emitted for volume 0")
                ctx.prove(ctx.le(v, n * m), "C06: fewer pairs than ceil(v/max_volume)")
                if n > 1:
                    ctx.prove(ctx.lt((n - 1) * m, v), "C06: more pairs than ceil(v/max_volume)")
        wlops.check_flows(ctx, W, sim, prop="C06")
        return
    # part d
    wl, v, md = c["wl"], c["v"], c["md"]
    if kind == "exc":
        if isinstance(val, ns.InvalidOperationError):
            ctx.prove(ctx.lt(wl.max_volume, v), "C06: reagent_distribution refused although volume <= max_volume")
        return
    rec = list(wl)[-1]
    if len(wl) != (2 if c.get("earlier") else 1):
        ctx.violate(f"C06: {len(wl)} records after the reagent distribution(s)")
        return
    f = rec.split(";")
    n = ctx.int_field(f[14])
    vol, _ = ctx.field(f[11])
    ctx.reach("d:kept" if (isinstance(n, int) and n == md) else "d:reduced")
    ctx.prove(ctx.le(n * v, wl.max_volume), "C06: planned multi-dispenses do not fit into max_volume")
    ctx.prove(ctx.any_of([ctx.eq(n, md), ctx.lt(wl.max_volume, (n + 1) * v)]), "C06: multi_disp reduced further than needed")
    ctx.prove(ctx.le(1, n), "C06: multi_disp below 1")


def describe(ctx, p, outcome):
    c = ctx.ctx
    if p["part"] in ("a", "b"):
        return f"  partition_volume({c['v']!r}, max_volume={c['m']!r}) -> {outcome[1]!r}"
    if p["part"] == "c":
        from harness import C01
        out = C01.describe(ctx, p, outcome)
        W0 = c.get("W0")
        if W0 is not None:
            out = f"  earlier, on another worklist ({W0.dev}, max_volume={W0.wl_max!r}): transfer of {[x for _, _, x in W0.pairs]!r} -> {list(W0.wl)}\n" + out
        return out
    return f"  reagent_distribution(volume={c['v']!r}, multi_disp={c['md']}) max_volume={c['wl'].max_volume!r} -> {list(c['wl'])}"
