"""C11 - the labware history is append-only, condensed per operation, and truthful."""
from harness import common, wlops
from oracles import gwl

ID = "C11"
BOUNDS = {
    "quick": "one operation (Labware.add/remove, worklist aspirate/dispense with k<=2 wells, transfer with k<=2 triples and <=3 split steps incl. "
             "same-labware and same-well transfers, auto_split on and off, distribute incl. into the source trough) from an arbitrary valid state whose history holds 1 or 3 "
             "earlier entries of arbitrary symbolic volumes; volumes >= 0 symbolic, so the classes 'all zero' / 'some zero' are decided by the solver; "
             "label present or absent; both devices; plate 2x2 / trough 3x2; followed by one further Labware.add to test snapshot semantics; a transfer between two distinct plates that carry the same name",
    "thorough": "k<=2 with 4 candidate wells, <=4 split steps, partition modes x3, plates 3x2/8x2",
}
OUTSIDE = "k beyond the bound; user code that mutates arrays returned by `history` (the property speaks about later operations)"
ASSUMPTIONS = ["representation invariant of the pre-state: the newest history entry equals the current volumes (established by the constructor and by every logging operation)"]


def shards(tier):
    out = []
    for dev in ("evo", "fluent"):
        for hist in (1, 3):
            for label in (None, "op"):
                base = dict(dev=dev, hist=hist, label=label)
                for op in ("add", "remove", "aspirate", "dispense"):
                    out.append(dict(base, op=op, sgeo="p2x2", dgeo="t3x2", k=2, steps=1))
                for sg, dg, same in [("p2x2", "t3x2", False), ("t3x2", "p2x2", False), ("p2x2", "p2x2", True)]:
                    out.append(dict(base, op="transfer", sgeo=sg, dgeo=dg, same=same, k=1, steps=3 if tier == "quick" else 4, partition_by="auto", washes=[1]))
                    if hist == 1 or tier == "thorough":
                        out.append(dict(base, op="transfer", sgeo=sg, dgeo=dg, same=same, k=2, steps=2, partition_by="auto", washes=[1],
                                        ncand=2 if (tier == "quick" or hist == 3) else 4))   # hist=3 with 4 candidates: >40 min per shard
                    if hist == 3 and label == "op":
                        out.append(dict(base, op="transfer", sgeo=sg, dgeo=dg, same=same, k=2, steps=1, partition_by="auto", washes=[1], ncand=2, auto_split=False))
                out.append(dict(base, op="distribute", sgeo="t3x2", dgeo="p2x2", k=1, steps=1))
                if hist == 1 and label == "op":
                    # labware as built by the public constructor from float arrays: the "initial" entry must be a snapshot too
                    # (1x2 plates: the constructor forks on the sign of every initial volume)
                    out.append(dict(base, op="transfer", sgeo="p1x2", dgeo="p1x2", k=1, steps=1, partition_by="auto", washes=[1], ctor_init=True, wl_max=common.BIG * 2))
                    out.append(dict(base, op="aspirate", sgeo="p1x2", dgeo="p1x2", k=1, steps=1, ctor_init=True))
                if hist == 3 and label == "op":
                    # two distinct labware objects that carry the same name (replicate plates): still two participating labware
                    out.append(dict(base, op="transfer", sgeo="p2x2", dgeo="p2x2", k=1, steps=2, partition_by="auto", washes=[1], same_name=True))
                if hist == 3 and label == "op":
                    for op in ("aspirate", "dispense"):
                        out.append(dict(base, op=op, sgeo="p2x2", dgeo="t3x2", k=2, steps=1, allow_reject=True))
                    out.append(dict(base, op="transfer", sgeo="p2x2", dgeo="t3x2", k=2, steps=1, partition_by="auto", washes=[1], ncand=2, allow_reject=True))
                out.append(dict(base, op="distribute", sgeo="t3x2", dgeo="t3x2", same=True, k=1, steps=1, dsels=[[3], [3, 4]]))
    return out


common.GEO.setdefault("p1x2", ("plate", 1, 2))


def weight(p):
    return p["k"] ** 3 * p["steps"]


def engine_opts(p, tier):
    return dict(mode="real", int_lo=1, int_hi=p["steps"])


def witnesses(tier):
    return {"ok:add", "ok:transfer", "ok:distribute", "moved-nothing", "lvh-label", "same-labware", "rejected-then-later-op"}


def scenario(ctx, p):
    q = dict(p)
    direct = p["op"] in ("add", "remove")
    if direct:
        q["op"] = "aspirate"
    W = wlops.build(ctx, q)
    if p.get("same_name"):
        W.dst.name = W.src.name   # the harness keeps addressing it as "D"
    np = ctx.np
    W.hist0 = {}
    for name, lab in W.labs.items():
        if p.get("ctor_init"):
            W.hist0[name] = (list(lab._history), [e.copy() for e in lab._history], list(lab._labels))
            continue
        entries = []
        for i in range(p["hist"] - 1):
            arr = lab.volumes
            for (r, c) in common.real_wells(lab):
                arr[r, c] = ctx.real(f"{name}_h{i}_{r}_{c}", 0, common.BIG)
            entries.append(arr)
        entries.append(lab.volumes)
        lab._history = list(entries)
        lab._labels = ["initial"] + [f"h{i}" for i in range(1, p["hist"])]
        W.hist0[name] = (list(entries), [e.copy() for e in entries], list(lab._labels))
    ctx.ctx["W"] = W
    if direct:
        lab = W.src
        ids = common.all_ids(lab)
        wells = [ctx.choose(f"well{i}", wlops.cand(q, ids, "src")) for i in range(p["k"])]
        vols = [ctx.real(f"x{i}", 0, common.BIG) for i in range(p["k"])]
        W.named = [("S", w, 1 if p["op"] == "add" else -1, v) for w, v in zip(wells, vols)]
        W.label = p["label"]
        W.cfg = (p["op"], tuple(wells))
        getattr(lab, p["op"])(wells, vols, label=p["label"]) if p["label"] else getattr(lab, p["op"])(wells, vols)
    else:
        W.p = p
        if p.get("allow_reject"):
            # the operation may be rejected (volume violation); the history must stay truthful for what follows
            ns = common.rt()
            try:
                wlops.run(ctx, W)
            except (ns.VolumeViolationException, ns.InvalidOperationError) as ex:
                W.rejected = type(ex).__name__
        else:
            wlops.run(ctx, W)
    # ---- snapshot semantics: take `volumes` and the newest entries, then run one more operation
    W.snap = {}
    W.hist_at_end = {}
    for name, lab in W.labs.items():
        W.snap[name] = (lab.volumes, lab.volumes.copy(), lab._history[-1], lab._history[-1].copy(), len(lab._history))
        W.hist_at_end[name] = (list(lab._history), [h.copy() for h in lab._history], list(lab._labels))
    y = ctx.real("y_after", 0, common.BIG)
    W.after = "ok"
    try:
        for lab in W.labs.values():
            lab.add(common.all_ids(lab)[0], y, label="after")
    except Exception as ex:  # noqa: BLE001 - an overflow here is fine
        W.after = type(ex).__name__
    return W


def arr_eq(ctx, a, b):
    fa = a._f if hasattr(a, "_f") else list(a.flatten())
    fb = b._f if hasattr(b, "_f") else list(b.flatten())
    if len(fa) != len(fb):
        return False
    return ctx.all_of([ctx.eq(x, y) for x, y in zip(fa, fb)])


def judge(ctx, p, outcome):
    kind, val = outcome
    if kind != "ok":
        return
    W = ctx.ctx["W"]
    op = p["op"]
    # every entry that existed when the operation ended (accepted or rejected) is unchanged after the later operation
    for name, lab in W.labs.items():
        objs, copies, labels = W.hist_at_end[name]
        bad = False
        for i, o in enumerate(objs):
            if i >= len(lab._history) or lab._history[i] is not o or lab._labels[i] != labels[i]:
                ctx.violate(f"C11: history entry {i} of {name} was replaced or relabelled by a later operation")
                bad = True
                break
        if not bad and objs:
            ctx.prove(ctx.all_of([arr_eq(ctx, o, cpy) for o, cpy in zip(objs, copies)]), f"C11: a history entry of {name} changed when a later operation ran")
    if getattr(W, "rejected", None):
        ctx.reach("rejected-then-later-op")
        return
    ctx.reach(f"ok:{op}")
    if p.get("same"):
        ctx.reach("same-labware")
    recs = list(W.wl)
    nA = sum(1 for r in recs if r.startswith("A;"))
    vols = [v for _, _, s, v in W.named if s < 0] if op in ("transfer", "distribute") else [v for _, _, s, v in W.named]
    moved = ctx.any_of([v > 0 for v in vols])
    for name, lab in W.labs.items():
        objs, copies, labels = W.hist0[name]
        n0 = len(objs)
        snap_vol_obj, snap_vol_copy, newest_obj, newest_copy, n1 = W.snap[name]
        hist, labs = lab._history[:n1], lab._labels[:n1]
        # (1) prefix preservation
        if len(hist) < n0:
            ctx.violate(f"C11: history of {name} lost earlier entries ({n0} -> {len(hist)})", info=dict(labels=[str(x) for x in labs]))
            continue
        for i in range(n0):
            if labs[i] != labels[i]:
                ctx.violate(f"C11: label of earlier history entry {i} of {name} changed: {labels[i]!r} -> {labs[i]!r}")
            ctx.prove(arr_eq(ctx, hist[i], copies[i]), f"C11: earlier history entry {i} of {name} was altered")
        participates = True
        if op in ("add", "remove", "aspirate") and name != "S":
            participates = False
        if op == "dispense" and name != W.dst.name:
            participates = False
        grown = len(hist) - n0
        if not participates:
            if grown != 0:
                ctx.violate(f"C11: labware {name} did not take part but its history grew")
            continue
        # (2) entry count
        if op in ("add", "remove", "aspirate", "dispense"):
            if grown != 1:
                ctx.violate(f"C11: {op} added {grown} history entries to {name} instead of 1")
                continue
        else:
            if grown > 1:
                ctx.violate(f"C11: {op} added {grown} history entries to {name} instead of one per participating labware")
                continue
            if grown == 0:
                ctx.reach("moved-nothing")
                ctx.prove(ctx.not_(moved), f"C11: {op} moved liquid but added no history entry to {name}")
                continue
        # (3) newest entry equals the volumes right after the operation, (4) label
        ctx.prove(arr_eq(ctx, newest_copy, snap_vol_copy), f"C11: newest history entry of {name} differs from the current volumes")
        lbl = labs[-1]
        want = W.label
        if op == "transfer":
            npos = 0
            # number of triples that moved liquid on this path: decided per triple by the solver
            extra_terms = [ctx.ite(v > 0, 1, 0) for _, _, v in W.pairs]
            if ctx.symbolic:
                tot = 0
                for t in extra_terms:
                    tot = tot + t
                n_extra = nA - tot
            else:
                n_extra = nA - sum(extra_terms)
            import re
            m = re.search(r"(-?\d+) LVH steps", str(lbl)) if lbl else None
            if m:
                ctx.reach("lvh-label")
                ctx.prove(ctx.eq(n_extra, int(m.group(1))), f"C11: label {lbl!r} of {name} reports a number of large-volume steps different from the extra pairs emitted")
                base = f"{W.label} ({m.group(1)} LVH steps)" if W.label else f"{m.group(1)} LVH steps"
                if lbl != base:
                    ctx.violate(f"C11: label {lbl!r} is not the operation label extended by the large-volume note")
            else:
                ctx.prove(ctx.eq(n_extra, 0), f"C11: volumes were split but the label {lbl!r} of {name} carries no large-volume note")
                if lbl != want:
                    ctx.violate(f"C11: newest entry of {name} is labelled {lbl!r} instead of {want!r}")
        elif op == "distribute":
            if lbl != (want if want is not None else ""):
                ctx.violate(f"C11: newest entry of {name} is labelled {lbl!r} instead of {want!r}")
        else:
            if lbl != want:
                ctx.violate(f"C11: newest entry of {name} is labelled {lbl!r} instead of {want!r}")
        # (5) snapshots survive the later operation
        ctx.prove(arr_eq(ctx, snap_vol_obj, snap_vol_copy), f"C11: array obtained from {name}.volumes changed when a later operation ran")
        ctx.prove(arr_eq(ctx, newest_obj, newest_copy), f"C11: history entry of {name} changed when a later operation ran")
        # (6) the printable report lists the same labels in the same order
        lines = lab.report.split("\n")
        alll = [x for x in lab._labels if x]
        got = [ln for ln in lines[1:] if ln in set(alll)]
        if got != alll:
            ctx.violate(f"C11: report of {name} lists labels {got} but the history has {alll}")


def describe(ctx, p, outcome):
    W = ctx.ctx.get("W")
    if W is None:
        return ""
    from harness import C01
    out = C01.describe(ctx, p, outcome)
    for n, lab in W.labs.items():
        out += f"\n  history[{n}] labels before={W.hist0[n][2]} after={lab._labels}"
    return out
