"""C07 - transfers move each requested volume between the paired wells, one tip at a time."""
from harness import common, wlops
from oracles import gwl

ID = "C07"
BOUNDS = {
    "quick": "one transfer of k<=2 (source, destination, volume) triples from an arbitrary valid state; wells per slot from 2 candidates per side (k=2) or 4 "
             "(k=1), i.e. every order and repeats; volumes symbolic of ANY sign; both devices; plate 2x2 / trough 3x2 either side; partition_by x3; "
             "wash schemes 1,2,3,4,'flush','reuse'; DiTi mode on/off; pass-through liquid_class / rack_id as abstract strings (length 0..40, may "
             "contain ';') and tip in {default, 3, (1,2), Tip.T8, Tip.Any}; <=2 split steps; mismatched argument lengths; 2-D (2x2) well arrays with a 2x2 nested "
             "volume list (four symbolic volumes, no splitting)",
    "thorough": "k=3 triples (2 candidates per side, no splitting), <=3 split steps for k=1, 4 candidates for k=2, plates 3x2 and 8x2, trough to trough",
}
OUTSIDE = "k beyond the bound, more split steps, other geometries; 2-D argument arrays larger than 2x2"
ASSUMPTIONS = ["group membership of a record is decoded from its position field by the numbering formula (oracles/gwl.py)"]
from fractions import Fraction

HALF_CENT = Fraction(1, 200)   # exact: the float 0.005*n is not the rational n/200


def shards(tier):
    out = []
    geos = [("p2x2", "p2x2"), ("p2x2", "t3x2"), ("t3x2", "p2x2")] + ([("p3x2", "p8x2"), ("t3x2", "t3x2")] if tier == "thorough" else [])
    for dev in ("evo", "fluent"):
        for sg, dg in geos:
            for pb in ("auto", "source", "destination"):
                out.append(dict(dev=dev, op="transfer", sgeo=sg, dgeo=dg, k=2, steps=2, partition_by=pb, neg=True, ncand=2 if tier == "quick" else 4,
                                washes=[1]))
                if tier == "thorough" and pb == "auto":
                    out.append(dict(dev=dev, op="transfer", sgeo=sg, dgeo=dg, k=3, steps=1, partition_by=pb, neg=True, ncand=2, washes=[1], wl_max=common.BIG * 2))
            out.append(dict(dev=dev, op="transfer", sgeo=sg, dgeo=dg, k=1, steps=2 if tier == "quick" else 3, partition_by="auto", neg=True, kwargs=True,
                            washes=[1, "reuse"], ncand=2 if tier == "quick" else 4))
            out.append(dict(dev=dev, op="transfer", sgeo=sg, dgeo=dg, k=1, steps=2 if tier == "quick" else 3, partition_by="auto", neg=True,
                            washes=[1, 2, 3, 4, "flush", "reuse", 5, "wash"], ncand=2 if tier == "quick" else 4))
            out.append(dict(dev=dev, op="transfer", sgeo=sg, dgeo=dg, k=1, steps=2, partition_by="auto", neg=True, diti=True, washes=[1, 3, "flush", "reuse"]))
            out.append(dict(dev=dev, op="transfer", sgeo=sg, dgeo=dg, k=2, steps=1, partition_by="auto", neg=True, auto_split=False, washes=[1], ncand=2))
            if (sg, dg) != ("t3x2", "p2x2"):
                out.append(dict(dev=dev, op="transfer", sgeo=sg, dgeo=dg, k=4, steps=1, partition_by="auto", shape2d=True, washes=[1], wl_max=common.BIG * 2))
            out.append(dict(dev=dev, op="transfer", sgeo=sg, dgeo=dg, k=2, steps=1, partition_by="auto", washes=[1], ncand=2, wl_max=common.BIG * 2, bcast=["src:scalar", "src:list1", "dst:scalar", "dst:list1", "vol:scalar", "vol:list1", "src:scalar+vol:scalar"]))
            for bad in ("vols+1", "dst+1", "vols-1", "src-1"):
                out.append(dict(dev=dev, op="transfer", sgeo=sg, dgeo=dg, k=3 if bad.endswith("-1") else 2, steps=2, partition_by="auto", bad=bad, ncand=2, washes=[1]))
    out.append(dict(part="twoplates", concrete=True, k=1, steps=1))
    return out


def weight(p):
    return p["k"] ** 3 * (3 if p.get("kwargs") else 1) * (4 if p.get("shape2d") else 1)


def engine_opts(p, tier):
    return dict(mode="real", int_lo=1, int_hi=p["steps"])


def witnesses(tier):
    return {"ok", "split", "break", "rejected-lengths", "wash:W", "wash:F", "wash:none", "diti:W;", "exc:wash"}


def scenario_twoplates(ctx, p):
    """history: two transfers on ONE worklist; the second uses a different labware object that carries the same name as one used
    before but has another geometry (a plate put on the same site later)"""
    ns = common.rt()
    c = ctx.ctx
    dev = ctx.choose("dev", ["evo", "fluent"])
    side = ctx.choose("renamed", ["destination", "source"])
    wl = common.make_worklist(ctx, dev, 1000)
    big = ns.Labware("Assay", 8, 12, min_volume=0, max_volume=10000, initial_volumes=2000)
    small = ns.Labware("Assay", 4, 6, min_volume=0, max_volume=10000, initial_volumes=2000)
    other = ns.Labware("Other", 8, 12, min_volume=0, max_volume=10000, initial_volumes=2000)
    wells, vols = ["A02", "B02", "C03", "D03"], [400.0, 410.0, 420.0, 430.0]
    flows = []
    for plate, rows in ((big, 8), (small, 4)):
        n0 = len(wl)
        if side == "destination":
            wl.transfer(other, wells, plate, wells, vols)
        else:
            wl.transfer(plate, wells, other, wells, vols)
        flows.append((rows, list(wl)[n0:]))
    c.update(cfg=(dev, side), flows=flows, wells=wells, vols=vols)
    return wl


def judge_twoplates(ctx, p, outcome):
    kind, val = outcome
    c = ctx.ctx
    if kind == "exc":
        ctx.violate(f"C07: {type(val).__name__}: {val}")
        return
    ctx.reach("ok")
    dev, side = c["cfg"]
    for rows, recs in c["flows"]:
        got = {}
        a = None
        for r in recs:
            f = r.split(";")
            if f[0] == "A":
                a = (f[1], int(f[4]), float(f[6]))
            elif f[0] == "D":
                key = (a[0], a[1], f[1], int(f[4]))
                got[key] = got.get(key, 0) + a[2]
        want = {}
        for w, v in zip(c["wells"], c["vols"]):
            r_, c_ = "ABCDEFGH".index(w[0]), int(w[1:]) - 1
            p_assay, p_other = 1 + c_ * rows + r_, 1 + c_ * 8 + r_
            key = ("Other", p_other, "Assay", p_assay) if side == "destination" else ("Assay", p_assay, "Other", p_other)
            want[key] = v
        if got != want:
            ctx.violate("C07: flows of a transfer differ from the requested ones when a same-named labware of another geometry was used before",
                        info=f"{dev} renamed {side}, plate with {rows} rows: got {got} want {want}")
            return


def scenario(ctx, p):
    if p.get("part") == "twoplates":
        return scenario_twoplates(ctx, p)
    W = wlops.build(ctx, p)
    ctx.ctx["W"] = W
    wlops.run(ctx, W)
    return W


def expected_mask(tipspec):
    if tipspec in ("default", "Any"):
        return ""
    if tipspec == "T8":
        return "128"
    if isinstance(tipspec, (tuple, list)):
        m = 0
        for t in set(tipspec):
            m |= 1 << (t - 1)
        return str(m)
    return str(1 << (tipspec - 1))


def judge(ctx, p, outcome):
    kind, val = outcome
    if kind not in ("ok", "exc"):
        return
    if p.get("part") == "twoplates":
        return judge_twoplates(ctx, p, outcome)
    W = ctx.ctx["W"]
    ns = common.rt()
    recs = list(W.wl)
    if p.get("bad"):
        if kind == "ok":
            ctx.violate("C07: argument lists of incompatible lengths were accepted")
        else:
            ctx.reach("rejected-lengths")
            if recs:
                ctx.violate("C07: records appended although the arguments were rejected")
        return
    if kind == "exc":
        if isinstance(val, (ns.VolumeViolationException, ns.InvalidOperationError)):
            return
        if isinstance(val, ValueError) and W.wash not in (1, 2, 3, 4, "flush", "reuse") and not p.get("diti"):
            ctx.reach("exc:wash")
            return
        if p.get("kwargs") and isinstance(val, ValueError):
            return   # argument validation (decided in C09)
        if isinstance(val, (ValueError, AssertionError)):
            # rejection of a negative volume is demanded; any other rejection is not expected here
            ctx.prove(ctx.any_of([v < 0 for _, _, v in W.pairs]), f"C07: transfer rejected valid arguments with {type(val).__name__}: {val}")
            return
        ctx.violate(f"C07: unexpected exception {type(val).__name__}: {val}")
        return
    ctx.reach("ok")
    # negative volumes must be rejected rather than silently dropped
    ctx.prove(ctx.all_of([v >= 0 for _, _, v in W.pairs]), "C07: a negative volume was accepted (silently dropped)")
    if W.wash not in (1, 2, 3, 4, "flush", "reuse") and not p.get("diti") and any(r[0] in "AD" for r in recs):
        ctx.violate(f"C07: invalid wash scheme {W.wash!r} accepted")
        return
    # ---- record discipline
    body = [r for r in recs if not r.startswith("C;")]
    gs, gd = W.geo["S"], W.geo[W.dst.name]
    flows = {}
    i = 0
    groups = []   # (partition column, was a B seen after it)
    if W.dev and p.get("partition_by", "auto") == "auto":
        side = "destination" if (gs.vrows is not None and gd.vrows is None) else "source"
    else:
        side = p["partition_by"]
    want_wash = None
    if p.get("diti"):
        want_wash = None if W.wash == "reuse" else ("F;" if W.wash == "flush" else "W;")
    else:
        want_wash = {"flush": "F;", "reuse": None}.get(W.wash, f"W{W.wash};")
    pairs_seen = []
    while i < len(body):
        r = body[i]
        if r == "B;":
            if pairs_seen:
                pairs_seen[-1]["break_after"] = True
            ctx.reach("break")
            i += 1
            continue
        f = r.split(";")
        if f[0] != "A":
            ctx.violate(f"C07: unexpected record {r!r} at position {i} (an aspirate record was expected)")
            return
        if i + 1 >= len(body) or not body[i + 1].startswith("D;"):
            ctx.violate("C07: aspirate record is not immediately followed by a dispense record")
            return
        g = body[i + 1].split(";")
        try:
            gwl.split_record(r), gwl.split_record(body[i + 1])
        except gwl.OracleReject as ex:
            ctx.violate(f"C07: malformed record: {ex}")
            return
        va, xa = ctx.field(f[6])
        vd, xd = ctx.field(g[6])
        ctx.prove(ctx.eq(va, vd), "C07: dispense volume differs from the preceding aspirate volume")
        if f[7] != g[7] or f[9] != g[9]:
            ctx.violate("C07: liquid class or tip mask differ between aspirate and dispense record")
        if f[1] != "S" or g[1] != W.dst.name:
            ctx.violate("C07: record addresses the wrong rack")
        if p.get("kwargs"):
            if f[7] != str.__str__(W.kwargs["liquid_class"]) or f[2] != str.__str__(W.kwargs["rack_id"]) or g[2] != f[2]:
                ctx.violate("C07: pass-through liquid_class / rack_id not carried by both records")
            if f[9] != expected_mask(W.tipspec):
                ctx.violate(f"C07: tip mask {f[9]!r} differs from the requested tip {W.tipspec!r}")
        pa, pd = ctx.int_field(f[4]), ctx.int_field(g[4])
        key = (pa, pd)
        ex = xa if xa is not None else va
        flows[key] = flows.get(key, 0) + ex
        j = i + 2
        if want_wash is None:
            pass
        else:
            if j >= len(body) or body[j] != want_wash:
                ctx.violate(f"C07: pair not followed by the requested tip action {want_wash!r}: {body[j] if j < len(body) else None!r}")
                return
            ctx.reach("wash:" + want_wash[0] if not p.get("diti") else "diti:" + want_wash)
            j += 1
        if want_wash is None:
            ctx.reach("wash:none")
        col = (gs.decode(pa, W.dev) if side == "source" else gd.decode(pd, W.dev))[1]
        pairs_seen.append(dict(col=col, key=key, break_after=False))
        i = j
    # ---- flows per (source position, destination position)
    want = {}
    for s_, d_, v in W.pairs:
        key = (gs.encode(s_, W.dev), gd.encode(d_, W.dev))
        want[key] = want.get(key, 0) + v
    for key in sorted(set(want) | set(flows)):
        a, b = want.get(key, 0), flows.get(key, 0)
        if ctx.symbolic:
            ctx.prove(ctx.eq(a, b), f"C07: flow {key} (source position, destination position) differs from the requested one")
        else:
            n = sum(1 for q in pairs_seen if q["key"] == key)
            ctx.prove(ctx.within(a, b, HALF_CENT * max(n, 1)), f"C07: flow {key} (source position, destination position) differs from the requested one")
    # ---- a break closes every column group in which a volume had to be split
    count = {}
    for q in pairs_seen:
        count[q["key"]] = count.get(q["key"], 0) + 1
    nreq = {}
    for s_, d_, v in W.pairs:
        key = (gs.encode(s_, W.dev), gd.encode(d_, W.dev))
        nreq[key] = nreq.get(key, 0) + 1
    split_cols = set()
    for q in pairs_seen:
        if count[q["key"]] > nreq.get(q["key"], 0):
            split_cols.add(q["col"])
            ctx.reach("split")
    for col in split_cols:
        last = max(i for i, q in enumerate(pairs_seen) if q["col"] == col)
        if not pairs_seen[last]["break_after"]:
            ctx.violate(f"C07: column group {col} contained a split volume but is not closed by a break record")


_describe01 = __import__("harness.C01", fromlist=["describe"]).describe


def describe(ctx, p, outcome):
    if p.get("part") == "twoplates":
        return f"  {ctx.ctx.get('cfg')} flows={ctx.ctx.get('flows')}"
    return _describe01(ctx, p, outcome)
