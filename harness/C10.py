"""C10 - tip selections encode to the Tecan tip bit mask."""
import re

from harness import common

ID = "C10"
BOUNDS = {
    "quick": "tip argument: a single value out of {unbounded symbolic int, every Tip member, Tip.Any, 2.5, None, '1'} or a list / tuple / set / generator of "
             "length 0..2 whose elements are each one of {unbounded symbolic int, T1, T3, T8, Tip.Any, 2.5, None}; entry points aspirate_well, dispense_well, "
             "aspirate / dispense of three wells in one call, transfer(tip=...) and the EVO commands evo_aspirate / evo_dispense / evo_wash with tips lists of length 1..2 (symbolic ints and Tip members); for list / tuple collections an earlier call in the same process with one of six other collections ([T3], [4], [T1,T4], [1,8], [1,2], [1,2.0]); EVO command volumes include 0",
    "thorough": "sequences up to length 3, both devices for transfer, EVO tips lists up to length 3",
}
OUTSIDE = "longer sequences (the chain int_to_tip partitions ALL integers into 9 classes per element, so element values are not bounded)"
ASSUMPTIONS = ["oracle: mask = bitwise OR of 2^(n-1) over the distinct members; empty field for a single Tip.Any"]

ELEMS = ["sym", "T1", "T3", "T8", "Any", 2.5, None]
# an earlier call in the same process (another worklist) with this collection: the mask of the call under test must not depend on it
PRIORS = [None, ["T3"], [4], ["T1", "T4"], [1, 8], [1, 2], [1, 2.0]]


def shards(tier):
    L = 2 if tier == "quick" else 3
    out = []
    for ep in ("aspirate_well", "dispense_well"):
        out.append(dict(part="well", ep=ep, shape="single"))
        for n in range(0, L + 1):
            for cont in ("list", "tuple") if ep == "aspirate_well" else ("list",):
                out.append(dict(part="well", ep=ep, shape=cont, n=n))
        out.append(dict(part="well", ep=ep, shape="set", n=2))
        out.append(dict(part="well", ep=ep, shape="gen", n=2))
    for dev in ("evo",) if tier == "quick" else ("evo", "fluent"):
        out.append(dict(part="transfer", dev=dev))
    for dev in ("evo", "fluent"):
        for call in ("aspirate", "dispense"):
            out.append(dict(part="transfer", dev=dev, call=call))
    for cmd in ("evo_aspirate", "evo_dispense", "evo_wash"):
        for n in range(1, L + 1):
            out.append(dict(part="evo", cmd=cmd, n=n))
    return out


def weight(p):
    return 7 ** p.get("n", 1)


def engine_opts(p, tier):
    return dict(mode="real", int_lo=-2, int_hi=11)


def witnesses(tier):
    return {"well:ok", "well:rejected", "well:any", "transfer:ok", "evo:ok", "evo:rejected"}


def mk_elem(ctx, kind, name):
    from robotools.evotools.types import Tip
    if kind == "sym":
        return ctx.int(name)
    if isinstance(kind, str) and kind.startswith("T"):
        return getattr(Tip, kind)
    if kind == "Any":
        return Tip.Any
    return kind


def scenario(ctx, p):
    ns = common.rt()
    from robotools.evotools.types import Tip
    c = ctx.ctx
    if p["part"] == "well":
        wl = ns.BaseWorklist()
        if p["shape"] == "single":
            kind = ctx.choose("tip", ["sym"] + [f"T{i}" for i in range(1, 9)] + ["Any", 2.5, None, "1"])
            kinds = [kind]
            elems = [mk_elem(ctx, kind, "t0")] if kind != "1" else ["1"]
            tip = elems[0]
        else:
            # a set literal mixing 4 and Tip.T3 is collapsed by Python itself (4 == Tip.T3): sets hold symbolic ints only
            kinds = [ctx.choose(f"e{i}", ELEMS if p["shape"] != "set" else ["sym"]) for i in range(p["n"])]
            elems = [mk_elem(ctx, k, f"t{i}") for i, k in enumerate(kinds)]
            tip = {"list": list, "tuple": tuple, "set": set, "gen": iter}[p["shape"]](elems)
        c.update(wl=wl, kinds=kinds, elems=elems, single=p["shape"] == "single")
        if p["shape"] in ("list", "tuple") and p["n"] >= 1:
            prior = ctx.choose("prior", PRIORS)
            c["prior"] = prior
            if prior is not None:
                pt = [getattr(Tip, e) if isinstance(e, str) else e for e in prior]
                try:
                    getattr(ns.BaseWorklist(), p["ep"])("Q", 1, 5.0, tip=pt if p["shape"] == "list" else tuple(pt))
                except ValueError:
                    pass
        getattr(wl, p["ep"])("P", 1, 10.0, tip=tip)
        return wl
    if p["part"] == "transfer":
        A = ns.Labware("A", 2, 2, min_volume=0, max_volume=1000, initial_volumes=500)
        B = ns.Labware("B", 2, 2, min_volume=0, max_volume=1000)
        wl = common.make_worklist(ctx, p["dev"], 100)
        kinds = [ctx.choose(f"e{i}", ["sym", "T3", 2.5]) for i in range(2)]
        elems = [mk_elem(ctx, k, f"t{i}") for i, k in enumerate(kinds)]
        c.update(wl=wl, kinds=kinds, elems=elems, single=False)
        call = p.get("call", "transfer")
        if call == "transfer":
            wl.transfer(A, ["A01", "B01"], B, ["A01", "B02"], [150.0, 20.0], tip=elems)
        elif call == "aspirate":   # one high-level call addressing several wells: every record carries the mask
            wl.aspirate(A, ["A01", "B01", "A02"], [10.0, 0.0, 20.0], tip=elems if ctx.choose("cont", ["list", "tuple"]) == "list" else tuple(elems))
        else:
            wl.dispense(B, ["A01", "B01", "A02"], [10.0, 5.0, 20.0], tip=elems)
        return wl
    # EVO commands
    wl = ns.EvoWorklist(max_volume=1000)
    n = p["n"]
    kinds = [ctx.choose(f"e{i}", ["sym", "T2", "T8", 2.5]) for i in range(n)]
    elems = [mk_elem(ctx, k, f"t{i}") for i, k in enumerate(kinds)]
    vols = [ctx.real(f"v{i}", 0, 900) for i in range(n)]   # a selected tip may carry volume 0
    c.update(wl=wl, kinds=kinds, elems=elems, vols=vols, single=False)
    if p["cmd"] == "evo_wash":
        wl.evo_wash(tips=elems, waste_location=(52, 2), cleaner_location=(52, 1))
    else:
        P = ns.Labware("P", 8, 2, min_volume=0, max_volume=10000, initial_volumes=5000)
        wells = [f"{'ABCDEFGH'[i]}01" for i in range(n)]
        getattr(wl, p["cmd"])(P, wells, (30, 2), elems, vols, "LC")
    return wl


def resolve(ctx, kinds, elems):
    """-> (list of tip numbers 1..8 or None per element, invalid flag conditions)"""
    nums, bad = [], []
    for k, e in zip(kinds, elems):
        if k == "sym":
            val = None
            if ctx.symbolic:
                for n in range(1, 9):
                    if ctx.is_true(e == n):
                        val = n
                        break
            elif isinstance(e, int) and 1 <= e <= 8:
                val = e
            nums.append(val)
            bad.append(ctx.any_of([e < 1, e > 8]))
        elif isinstance(k, str) and k.startswith("T"):
            nums.append(int(k[1:]))
            bad.append(False)
        else:
            nums.append(None)
            bad.append(True)
    return nums, bad


def judge(ctx, p, outcome):
    kind, val = outcome
    if kind not in ("ok", "exc"):
        return
    c = ctx.ctx
    wl, kinds, elems = c["wl"], c["kinds"], c["elems"]
    nums, bad = resolve(ctx, kinds, elems)
    part = p["part"]
    if kind == "exc":
        ctx.reach(f"{part if part != 'transfer' else 'well'}:rejected")
        if [r for r in wl if r[0] in "ADB"]:
            ctx.violate("C10: a rejected tip selection left records behind")
        if part in ("well", "transfer"):
            if c["single"] and kinds[0] == "Any":
                ctx.violate("C10: a single Tip.Any was rejected")
            ok_empty = False
            ctx.prove(ctx.any_of(bad), f"C10: a valid tip selection was rejected ({type(val).__name__}: {val})")
        return
    recs = list(wl)
    if part in ("well", "transfer"):
        body = [r for r in recs if r[0] in "AD"]
        masks = {r.split(";")[9] for r in body}
        if len(masks) != 1:
            ctx.violate(f"C10: records of one call carry different tip masks {sorted(masks)}")
            return
        (mask,) = masks
        if c["single"] and kinds[0] == "Any":
            ctx.reach("well:any")
            if mask != "":
                ctx.violate(f"C10: Tip.Any produced the mask {mask!r} instead of an empty field")
            return
        ctx.reach("well:ok" if part == "well" else "transfer:ok")
        if any(n is None for n in nums):
            ctx.prove(ctx.not_(ctx.any_of(bad)), "C10: an invalid tip (0, 9, non-integer, Tip.Any inside a collection) was accepted")
            ctx.violate("C10: accepted tip selection whose members are not pinned to 1..8 on this path")
            return
        want = 0
        for n in set(nums):
            want |= 1 << (n - 1)
        if mask != str(want):
            ctx.violate(f"C10: tip mask {mask!r} instead of {want} for tips {nums}")
        return
    # EVO commands
    ctx.reach("evo:ok")
    (cmd,) = [r for r in recs if r.startswith("B;")]
    m = re.match(r"B;(Aspirate|Dispense|Wash)\((\d+),(.*)\);$", cmd)
    if not m:
        ctx.violate(f"C10: malformed EVO command {cmd!r}")
        return
    mask = int(m.group(2))
    if any(n is None for n in nums):
        ctx.prove(ctx.not_(ctx.any_of(bad)), "C10: an invalid tip was accepted by an EVO command")
        ctx.violate("C10: EVO command accepted tips that are not pinned to 1..8 on this path")
        return
    want = 0
    for n in set(nums):
        want |= 1 << (n - 1)
    if mask != want:
        ctx.violate(f"C10: EVO command tip mask {mask} is not the OR {want} of the distinct tips {nums}")
        return
    if m.group(1) != "Wash":
        rest = m.group(3).split(",")
        slots = rest[1:13]
        for i in range(12):
            sel = (i + 1) in nums
            nonzero = slots[i] != "0"
            if sel != nonzero:
                ctx.violate(f"C10: volume slot {i + 1} is {'filled' if nonzero else 'empty'} but tip {i + 1} is {'selected' if sel else 'not selected'} ({cmd})")
                return
        # slot i carries the volume given for tip i
        if len(set(nums)) == len(nums):
            for n, v in zip(nums, c["vols"]):
                fv, _ = ctx.field(slots[n - 1].strip('"'))
                ctx.prove(ctx.within(fv, v, common_half()), f"C10: volume slot {n} does not carry the volume given for tip {n}")


def common_half():
    from fractions import Fraction
    return Fraction(1, 200)


def describe(ctx, p, outcome):
    c = ctx.ctx
    return f"  {p} earlier call with tip={c.get('prior')!r}; tips={c.get('elems')!r} volumes={c.get('vols')!r}\n  records={list(c['wl']) if 'wl' in c else None}"
