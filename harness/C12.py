"""C12 - the EVO well-selection string is a faithful, decodable bitmap."""
from harness import common
from oracles import evoscript

ID = "C12"
BOUNDS = {
    "quick": "evo_get_selection (if-converted, all wells symbolic 0/1: every subset of a geometry is one path) for every geometry rows 1..8 x columns 1..12 "
             "plus 16x24 and 26x48; evo_make_selection_array + evo_get_selection end to end with decode(encode) = id for all single-well, full and "
             "2-well selections of plates 2x3, 8x12 (also with the wells given as 1-D / 2-D numpy arrays of ids: blocks, strided, reversed, fancy-indexed, transposed, hand-made) and all single-well / full selections of every geometry up to 8x12 plus 14x3, 16x24, 26x48 (concrete, on real numpy, not solver-decided); to_hex for every dimension 1..255",
    "thorough": "every geometry rows 1..26 x columns 1..48 (1248 geometries, all subsets each)",
}
OUTSIDE = "dimensions >= 256 (two hex digits)"
ASSUMPTIONS = ["mask arithmetic on 16-bit bit-vectors with the explicit no-overflow obligation 48 <= char < 176",
               "oracle: decoder of oracles/evoscript.py written from the EVOware rule"]


def shards(tier):
    out = []
    if tier == "quick":
        geos = [(r, c) for r in range(1, 9) for c in range(1, 13)] + [(16, 24), (26, 48)]
    else:
        geos = [(r, c) for r in range(1, 27) for c in range(1, 49)]
    # group geometries into shards of similar weight
    geos.sort(key=lambda g: g[0] * g[1])
    chunk, acc, w = [], [], 0
    for g in geos:
        acc.append(g)
        w += g[0] * g[1]
        if w > (400 if tier == "quick" else 3000):
            out.append(dict(part="sym", geos=acc))
            acc, w = [], 0
    if acc:
        out.append(dict(part="sym", geos=acc))
    out.append(dict(part="concrete", concrete=True))
    return out


def weight(p):
    return sum(r * c for r, c in p.get("geos", [(8, 12)]))


def engine_opts(p, tier):
    return dict(mode="real", rlimit=0, timeout_ms=300_000)


def witnesses(tier):
    return {"sym:ok", "concrete:ok"}


_fn = None


def setup():
    global _fn
    if _fn is not None:
        return
    from symex import bitint, core, ifconv
    from robotools.evotools import commands

    def sym_chr(x):
        if isinstance(x, core.SInt):
            return format(x, "c")
        return chr(x)

    import z3

    def bv_ite(c, a, b):
        # merges of the mask under a symbolic selection bit stay bit-vector backed
        if isinstance(a, str) or isinstance(b, str):
            c.eng._raise(core.Unsupported("string merge"))
        return bitint.BInt(c.eng, z3.If(c.t, bitint.bv(a), bitint.bv(b)))

    _fn = ifconv.ifconvert(commands.evo_get_selection, {"chr": sym_chr, "__ite": bv_ite})


def scenario(ctx, p):
    c = ctx.ctx
    if p["part"] == "concrete":
        return scenario_concrete(ctx)
    R, C = ctx.choose("geo", [tuple(g) for g in p["geos"]])
    c.update(R=R, C=C)
    if ctx.symbolic:
        import z3
        from symex import bitint
        np = ctx.np
        sel = np.zeros((R, C))
        bits = {}
        for r in range(R):
            for cc in range(C):
                b = z3.BitVec(f"s_{r}_{cc}", bitint.BW)
                ctx.solver.add(z3.ULE(b, 1))
                bits[(r, cc)] = b
                sel[r, cc] = bitint.BInt(ctx, b)
        c["bits"] = bits
        ctx.register("selection", "obj", _SelWitness(bits, R, C))
        return _fn(R, C, sel)
    import numpy
    from robotools.evotools.commands import evo_get_selection
    sel = numpy.array(ctx.real("selection"))
    c["sel"] = sel
    return evo_get_selection(R, C, sel)


class _SelWitness:
    def __init__(self, bits, R, C):
        self.bits, self.R, self.C = bits, R, C

    def concretize(self, model):
        return {"frac": None, "sel": [[model.eval(self.bits[(r, c)], model_completion=True).as_long() for c in range(self.C)] for r in range(self.R)]}


def scenario_concrete(ctx):
    from robotools.evotools.commands import evo_get_selection, evo_make_selection_array
    from robotools.evotools.utils import to_hex
    msgs = []
    for d in range(1, 256):
        if to_hex(d) != format(d, "X"):
            msgs.append(f"C12: to_hex({d}) = {to_hex(d)!r}")
    ROWS = "ABCDEFGHIJKLMNOPQRSTUVWXYZ"
    seen = {}
    geos = [(R, C) for R in range(1, 9) for C in range(1, 13)] + [(16, 24), (14, 3), (26, 48)]
    for R, C in geos:
        ids = [f"{ROWS[r]}{c + 1:02d}" for c in range(C) for r in range(R)]
        small = R * C <= 24
        sels = ([[w] for w in ids] if small or (R, C) == (8, 12) else [[ids[0]], [ids[-1]], [ids[len(ids) // 2]]]) + [ids] + [[ids[0], ids[0]]]
        if (R, C) in ((2, 3), (8, 12)):
            sels += [[a, b] for i, a in enumerate(ids[:12]) for b in ids[i + 1:12]]
        if (R, C) in ((4, 6), (8, 12), (16, 24), (2, 3)):
            # the wells as numpy arrays of ids: 1-D, and 2-D arrangements that are not a contiguous block in natural order
            import numpy
            Wg = numpy.array([[f"{ROWS[r]}{c + 1:02d}" for c in range(C)] for r in range(R)])
            sels += [numpy.array(ids[:3]), Wg[0:2, 0:3], Wg[::2, :2], Wg[[0, R - 1], :], Wg[::-1, ::3], Wg[0:2, 0:3].T, Wg[:, [C - 1, 0]],
                     numpy.array([[Wg[0, 0], Wg[R - 1, 0]], [Wg[0, C - 1], Wg[R - 1, C - 1]]]), Wg[1:2, 1:2], Wg]
        for wells in sels:
            arr = evo_make_selection_array(R, C, wells)
            wells = [str(w) for w in (wells.flatten() if hasattr(wells, "flatten") else wells)]
            s = evo_get_selection(R, C, arr)
            try:
                r2, c2, dec = evoscript.decode_selection(s)
            except evoscript.Reject as ex:
                msgs.append(f"C12: {ex}")
                continue
            want = sorted({(ROWS.index(w[0]), int(w[1:]) - 1) for w in wells})
            if (r2, c2) != (R, C) or sorted(dec) != want:
                msgs.append(f"C12: selection of {wells} on {R}x{C} decodes to {sorted(dec)} / {r2}x{c2}")
            if len(s) != 4 + -(-R * C // 7):
                msgs.append(f"C12: selection string of {R}x{C} has {len(s)} characters instead of {4 + -(-R * C // 7)}")
            key = (R, C, tuple(want))
            if seen.setdefault(s, key) != key:
                msgs.append(f"C12: two different selections share the string {s!r}")
    # history: two selection arrays of one geometry are built before either is encoded (results must be independent objects)
    for R, C in ((8, 12), (2, 3), (16, 24)):
        ids = [f"{ROWS[r]}{c + 1:02d}" for c in range(C) for r in range(R)]
        first, second = ids[:2], ids[-2:]
        a1 = evo_make_selection_array(R, C, first)
        a2 = evo_make_selection_array(R, C, second)
        for arr, wells in ((a1, first), (a2, second)):
            try:
                _, _, dec = evoscript.decode_selection(evo_get_selection(R, C, arr))
            except evoscript.Reject as ex:
                msgs.append(f"C12: {ex}")
                continue
            want = sorted({(ROWS.index(w[0]), int(w[1:]) - 1) for w in wells})
            if sorted(dec) != want:
                msgs.append(f"C12: selection array made for {wells} on {R}x{C} decodes to {sorted(dec)} after another array of that geometry was made")
    return msgs[:6]


def judge(ctx, p, outcome):
    kind, val = outcome
    c = ctx.ctx
    if kind == "exc":
        ctx.violate(f"C12: {type(val).__name__}: {val}")
        return
    if kind != "ok":
        return
    if p["part"] == "concrete":
        ctx.reach("concrete:ok")
        for m in val:
            ctx.violate(m)
        return
    ctx.reach("sym:ok")
    R, C = c["R"], c["C"]
    out = val
    order = [(r, cc) for cc in range(C) for r in range(R)]
    need = -(-R * C // 7)
    if not ctx.symbolic:
        # concrete replay: decode and compare
        sel = c["sel"]
        try:
            r2, c2, dec = evoscript.decode_selection(out)
        except evoscript.Reject as ex:
            ctx.violate(f"C12: {ex}")
            return
        want = sorted((r, cc) for (r, cc) in order if sel[r][cc] == 1)
        for j in range(need):
            grp = order[7 * j: 7 * j + 7]
            exp = 48 + sum((1 << i) for i, w in enumerate(grp) if sel[w[0]][w[1]] == 1)
            if len(out) <= 4 + j or ord(out[4 + j]) != exp:
                ctx.violate(f"C12: selection character {j} is not 48 + the bits of its seven wells (column-major, LSB first)")
        if (r2, c2) != (R, C) or sorted(dec) != want:
            ctx.violate("C12: selection string does not decode to the selected wells")
        return
    import re
    import z3
    from symex import bitint, core
    header = f"{C:02X}{R:02X}"
    if out[:4] != header:
        ctx.violate(f"C12: header {out[:4]!r} instead of {header!r}")
        return
    items = re.findall(r"⟦\d+⟧|.", out[4:], flags=re.S)
    if len(items) != need:
        ctx.violate(f"C12: selection string has {len(items)} characters after the header instead of {need}")
        return
    bits = c["bits"]
    for j, it in enumerate(items):
        grp = order[7 * j: 7 * j + 7]
        expected = z3.BitVecVal(48, bitint.BW)
        for i, w in enumerate(grp):
            expected = expected + bits[w] * (1 << i)
        if it in ctx.tokens:
            got = bitint.bv(ctx.tokens[it][0])
        else:
            got = z3.BitVecVal(ord(it), bitint.BW)
        ctx.prove(core.SBool(ctx, z3.And(got == expected, z3.UGE(got, 48), z3.ULT(got, 176))),
                  f"C12: selection character {j} is not 48 + the bits of its seven wells (column-major, LSB first)")


def describe(ctx, p, outcome):
    c = ctx.ctx
    return f"  geometry {c.get('R')}x{c.get('C')} selected={c.get('sel').tolist() if c.get('sel') is not None else None} -> {outcome[1]!r}"
