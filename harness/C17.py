"""C17 - saving writes exactly the records, one per line, replacing earlier content."""
import os
import shutil
import tempfile

from harness import common

ID = "C17"
BOUNDS = {
    "quick": "worklists holding 0..3 records whose free text consists of symbolic Latin-1 characters (every length 0..3 per record, code points 32..255), written "
             "by save() with a str or Path argument, by leaving the `with` block normally and by an exception, twice in a row (after appending; after replacing a record by another of the same length; after re-entering the `with` block; after an intermediate save under another file name inside the block); a pre-existing file of "
             "0..6 symbolic bytes (longer and shorter than the new content); file names {x.gwl, X.GWL, x.txt, x, x.gwl.bak, gwl}; __enter__ on a non-empty "
             "worklist; str()/repr() of the worklist",
    "thorough": "records up to length 5, 4 records, pre-existing files up to 12 bytes",
}
OUTSIDE = "the operating system's file semantics: open()/Path.unlink are replaced by the stream model symex/iomodel.py (validated against real files), so the claim is relative to that model; longer records"
ASSUMPTIONS = ["stream model of open(mode, newline=, encoding=) and Path.unlink per the io documentation (symex/iomodel.py; differential self-test against real files)",
               "records contain no CR/LF (C09 shows that no emitter produces them)"]

# every claim of this harness speaks about the same written bytes: a symbolic 'wrong encoding' refutation shows up as a wrong byte count concretely
REPLAY_ANY_CLAIM = True
NAMES = ["x.gwl", "X.GWL", "x.txt", "x", "x.gwl.bak", "gwl"]


def shards(tier):
    L = 3 if tier == "quick" else 5
    out = []
    for how in ("save-str", "save-path", "with", "with-exc", "twice", "resave", "with-snapshot"):
        for nrec in range(0, 4 if tier == "quick" else 5):
            out.append(dict(part="write", how=how, nrec=nrec, L=L if nrec <= 2 else 1, pre=6 if tier == "quick" else 12))
    out.append(dict(part="names", concrete=True))
    out.append(dict(part="enter", concrete=True))
    return out


def engine_opts(p, tier):
    return dict(mode="real")


def witnesses(tier):
    return {"write:ok", "names:accepted", "names:refused", "enter:ok"}


_fs = None


def setup():
    """shadow open / Path in robotools.worklists.base by the stream model (module globals only)"""
    global _fs
    if _fs is not None:
        return
    from symex import iomodel
    from robotools.worklists import base
    _fs = iomodel.ModelFS()

    class P(iomodel.ModelPath):
        fs = _fs

    base.Path = P
    base._verif_fs = _fs


def scenario(ctx, p):
    ns = common.rt()
    c = ctx.ctx
    part = p["part"]
    if ctx.symbolic:
        from robotools.worklists import base
        _fs.files.clear()
        base.open = _fs.open(ctx.tokens)
        tmp = "/model"
    else:
        tmp = tempfile.mkdtemp(prefix="c17_")
    c["tmp"] = tmp
    try:
        return _scenario(ctx, p, ns, c, part, tmp)
    finally:
        if not ctx.symbolic:
            c["files"] = {}
            for fn in os.listdir(tmp):
                c["files"][os.path.join(tmp, fn)] = list(open(os.path.join(tmp, fn), "rb").read())
            shutil.rmtree(tmp, ignore_errors=True)


def _pre_existing(ctx, path, n):
    k = ctx.choose("pre_len", [None, 0, 1, n])
    if k is None:
        return None
    content = [ctx.int(f"old{i}", 0, 255) for i in range(k)]
    if ctx.symbolic:
        _fs.files[path] = list(content)
    else:
        with open(path, "wb") as f:
            f.write(bytes(content))
    return content


def _records(ctx, p):
    recs = []
    for i in range(p["nrec"]):
        kind = ctx.choose(f"kind{i}", ["C", "A"])
        L = ctx.choose(f"len{i}", list(range(0, p["L"] + 1)))
        body = ctx.chars(f"rec{i}", L, 32, 255)
        recs.append((kind, body))
    return recs


def _render(kind, body):
    if kind == "C":
        return f"C;{body}"
    return f"A;{body};;;1;;10.00;;;;"


def _scenario(ctx, p, ns, c, part, tmp):
    from pathlib import Path as RealPath
    if part == "names":
        name = ctx.choose("name", NAMES)
        wl = ns.BaseWorklist()
        wl.append("B;")
        c.update(name=name, path=f"{tmp}/{name}")
        wl.save(f"{tmp}/{name}")
        return wl
    if part == "enter":
        wl = ns.BaseWorklist()
        wl.append("W1;")
        wl.append("B;")
        with wl as w2:
            c["inside"] = list(w2)
            c["same"] = w2 is wl
            w2.append("F;")
        c["after"] = list(wl)
        c["text"] = (str(wl), repr(wl))
        big = ns.BaseWorklist()
        n = ctx.choose("nbig", [10, 600, 5000])
        for i in range(n):
            big.comment(f"step {i}")
        c["big"] = (n, list(big), str(big), repr(big), f"{big}")
        return wl
    path = f"{tmp}/out.gwl"
    c["path"] = path
    c["old"] = _pre_existing(ctx, path, p["pre"])
    recs = _records(ctx, p)
    c["recs"] = recs
    how = p["how"]
    if how in ("save-str", "save-path", "twice"):
        wl = ns.BaseWorklist()
        for k, b in recs:
            wl.append(_render(k, b))
        arg = path if how != "save-path" or ctx.symbolic else RealPath(path)
        if how == "save-path" and ctx.symbolic:
            from robotools.worklists import base
            arg = base.Path(path)
        wl.save(arg)
        if how == "twice":
            wl.append("B;")
            wl.save(arg)
            c["extra"] = ["B;"]
        c["text"] = (str(wl), repr(wl))
        return wl
    if how == "resave":
        # history: the same worklist object was saved to the same path before, with other records of the same number and total length
        via = ctx.choose("via", ["setitem", "reenter", "setitem-with"])
        c["via"] = via
        c["extra"] = ["W2;"]
        if via == "setitem":
            wl = ns.BaseWorklist()
            for k, b in recs:
                wl.append(_render(k, b))
            wl.append("W1;")
            wl.save(path)
            wl[-1] = "W2;"
            wl.save(path)
        else:
            wl = ns.BaseWorklist(path)
            with wl as w:
                for k, b in recs:
                    w.append(_render(k, b))
                w.append("W1;")
                if via == "setitem-with":
                    w.save(path)
                    w[-1] = "W2;"
            if via == "reenter":
                with wl as w:
                    for k, b in recs:
                        w.append(_render(k, b))
                    w.append("W2;")
        c["text"] = (str(wl), repr(wl))
        return wl
    if how == "with-snapshot":
        # history: inside the with block an intermediate snapshot is saved under ANOTHER name; leaving the block still writes the worklist's own file
        wl = ns.BaseWorklist(path)
        with wl as w:
            for k, b in recs:
                w.append(_render(k, b))
            w.save(f"{tmp}/snapshot.gwl")
            w.append("B;")
        c["extra"] = ["B;"]
        c["text"] = (str(wl), repr(wl))
        return wl
    wl = ns.BaseWorklist(path)
    try:
        with wl as w:
            for k, b in recs:
                w.append(_render(k, b))
            if how == "with-exc":
                raise RuntimeError("user code fails inside the with block")
    except RuntimeError:
        c["raised"] = True
    c["text"] = (str(wl), repr(wl))
    return wl


def judge(ctx, p, outcome):
    kind, val = outcome
    if kind not in ("ok", "exc"):
        return
    c = ctx.ctx
    part = p["part"]
    files = _fs.files if ctx.symbolic else c.get("files", {})
    if part == "names":
        name = c["name"]
        has_ext = name.lower().endswith(".gwl") and len(name) > 4
        if kind == "exc":
            ctx.reach("names:refused")
            if has_ext:
                ctx.violate(f"C17: file name {name!r} with a .gwl extension was refused")
            if c["path"] in files:
                ctx.violate("C17: a refused save still wrote a file")
            return
        ctx.reach("names:accepted")
        if not has_ext and name != ".gwl":
            ctx.violate("C17: a file name without a .gwl extension was accepted", info=name)
        return
    if part == "enter":
        if kind == "exc":
            ctx.violate(f"C17: context manager raised {val}")
            return
        ctx.reach("enter:ok")
        if c["inside"] != [] or not c["same"]:
            ctx.violate(f"C17: entering the with block did not start from an empty worklist: {c['inside']}")
        if c["after"] != ["F;"] or c["text"] != ("F;", "F;"):
            ctx.violate("C17: worklist content / string conversion after the with block is wrong")
        n, recs_, s_, r_, f_ = c["big"]
        if len(recs_) != n or s_ != "\n".join(recs_) or r_ != s_ or f_ != s_:
            ctx.violate("C17: string conversion of a long worklist does not show the same records", info=f"{n} records, str() has {s_.count(chr(10)) + 1} lines")
        return
    if kind == "exc":
        ctx.violate(f"C17: saving raised {type(val).__name__}: {val}")
        return
    ctx.reach("write:ok")
    wl = val
    recs = c["recs"]
    want_items = []   # expected file content: records joined by CRLF, Latin-1, no trailing line break
    rendered = [_render(k, b) for k, b in recs] + c.get("extra", [])
    if list(wl) != rendered and ctx.symbolic is False:
        pass
    path = c["path"]
    if path not in files:
        ctx.violate("C17: no file was written")
        return
    got = files[path]
    # expected byte items
    exp = []
    for i, (k, b) in enumerate(recs):
        if i:
            exp += [13, 10]
        pre, post = (_render(k, "\x00").split("\x00"))
        exp += [ord(x) for x in pre]
        exp += (list(b.chars) if ctx.symbolic else [ord(x) for x in b])
        exp += [ord(x) for x in post]
    for e in c.get("extra", []):
        if exp or recs:
            exp += [13, 10]
        exp += [ord(x) for x in e]
    if len(got) != len(exp):
        ctx.violate(f"C17: file has {len(got)} bytes instead of {len(exp)} (records joined by CRLF, no trailing line break, nothing left of an earlier file)",
                    info=dict(got=[str(x) for x in got[:40]]))
        return
    for j, (g, e) in enumerate(zip(got, exp)):
        if isinstance(g, tuple):
            enc, ch = g
            if ch is not e:
                ctx.violate(f"C17: byte {j} of the file is not the character of the record at that place")
                return
            from symex import core
            if enc in ("latin_1", "latin1"):
                ctx.prove(core.SBool(ctx, core.z3.And(ch >= 0, ch <= 255)), "C17: a record character is not representable as one Latin-1 byte")
            else:
                # any other encoding must still produce exactly this one byte: the set of code points for which it does is computed
                # from the codec itself (utf-8: 0..127; iso8859_15: all of Latin-1 but eight code points)
                same = []
                for cp in range(256):
                    try:
                        if chr(cp).encode(enc.replace("_", "-") if enc.startswith("utf") else enc) == bytes([cp]):
                            same.append(cp)
                    except (UnicodeEncodeError, LookupError):
                        pass
                runs, start = [], None
                for cp in range(257):
                    if cp in same and start is None:
                        start = cp
                    if cp not in same and start is not None:
                        runs.append((start, cp - 1))
                        start = None
                cond = core.z3.Or(*[core.z3.And(ch >= a, ch <= b) for a, b in runs]) if runs else core.z3.BoolVal(False)
                ctx.prove(core.SBool(ctx, cond), f"C17: a Latin-1 character is not written as its single Latin-1 byte (encoding {enc})")
        else:
            if isinstance(e, int):
                if g != e:
                    ctx.violate(f"C17: byte {j} of the file is {g} instead of {e}")
                    return
            else:
                ctx.prove(ctx.eq(e, g), f"C17: byte {j} of the file differs from the record character")
    # string conversion shows the same records
    s, r = c["text"]
    if s != "\n".join(list(wl)) or r != s:
        ctx.violate("C17: str()/repr() of the worklist is not the newline-joined record list")
    if list(wl) != rendered:
        ctx.violate("C17: the worklist does not hold exactly the appended records")


def describe(ctx, p, outcome):
    c = ctx.ctx
    return f"  {p} via={c.get('via')} name={c.get('name')} old={c.get('old')} records={[(k, str(b)) for k, b in c.get('recs', [])]}\n  file bytes={c.get('files')}\n  outcome={outcome[0]} {outcome[1] if outcome[0] == 'exc' else ''}"
