"""C18 - column partitioning keeps triples intact, groups by column and orders by row."""
from harness import common

ID = "C18"
BOUNDS = {
    "quick": "partition_by_column on n<=4 (source, destination, volume) triples whose well ids are symbolic character vectors [A-Z][0-9][0-9] (column 01..99, every "
             "character a symbolic code point) and whose volumes are symbolic reals; both modes plus an invalid mode name and n=0; each path is one grouping / "
             "ordering pattern and covers every assignment of rows and columns consistent with it; optimize_partition_by for all combinations of {plate, one-row plate, Trough, trough declared via Labware(virtual_rows=...)} x "
             "{'auto','source','destination', invalid names}",
    "thorough": "n<=5",
}
OUTSIDE = "n beyond the bound; column numbers >= 100 (three-character suffixes sort lexicographically, outside the property's own bound)"
ASSUMPTIONS = ["collections.defaultdict of robotools.worklists.utils is shadowed by a symbolic-aware mapping (key lookup forks on equality with the existing keys); "
               "sorting runs on the real sorted()/argsort with symbolic '<' deciding each comparison"]


def shards(tier):
    N = 4 if tier == "quick" else 5
    out = []
    for mode in ("source", "destination"):
        for n in range(0, N + 1):
            out.append(dict(part="partition", n=n, mode=mode))
    out.append(dict(part="partition", n=2, mode="column"))
    out.append(dict(part="optimize"))
    return out


def weight(p):
    return 10 ** p.get("n", 1)


def engine_opts(p, tier):
    return dict(mode="real")


def witnesses(tier):
    return {"partition:ok", "partition:rejected", "optimize:ok", "optimize:rejected", "two-groups", "one-group"}


class SymDefaultDict:
    def __init__(self, factory):
        self.factory, self.items_ = factory, []

    def __getitem__(self, k):
        for kk, v in self.items_:
            if kk is k or bool(kk == k):
                return v
        v = self.factory()
        self.items_.append((k, v))
        return v

    def keys(self):
        return [k for k, _ in self.items_]

    def values(self):
        return [v for _, v in self.items_]

    def items(self):
        return list(self.items_)

    def __iter__(self):
        return iter(self.keys())

    def __len__(self):
        return len(self.items_)

    def __contains__(self, k):
        return any(kk is k or bool(kk == k) for kk, _ in self.items_)


_done = False


def setup():
    global _done
    if _done:
        return
    import collections as _c
    from robotools.worklists import utils as wu

    class _Coll:
        defaultdict = SymDefaultDict
        abc = _c.abc

    wu.collections = _Coll
    _done = True


def mk_well(ctx, name):
    s = ctx.chars(name, 3, 48, 90)
    if ctx.symbolic:
        import z3
        r, a, b = s.chars
        ctx.add(z3.And(r >= 65, r <= 90, a >= 48, a <= 57, b >= 48, b <= 57, z3.Or(a > 48, b > 48)))
    return s


def scenario(ctx, p):
    c = ctx.ctx
    if p["part"] == "optimize":
        ns = common.rt()
        from robotools.worklists.utils import optimize_partition_by
        # "ltrough": a trough declared through the generic constructor (virtual_rows), "trough": the Trough class, "plate1": a one-row plate
        skind = ctx.choose("src", ["plate", "trough", "ltrough", "plate1"])
        dkind = ctx.choose("dst", ["plate", "trough", "ltrough", "plate1"])
        mode = ctx.choose("mode", ["auto", "source", "destination", "Source", "", "column", None])
        def mk(k, n):
            import warnings
            if k == "plate":
                return ns.Labware(n, 2, 2, min_volume=0, max_volume=10)
            if k == "plate1":
                return ns.Labware(n, 1, 2, min_volume=0, max_volume=10)
            if k == "trough":
                return ns.Trough(n, 2, 2, min_volume=0, max_volume=10)
            with warnings.catch_warnings():
                warnings.simplefilter("ignore")
                return ns.Labware(n, 1, 2, min_volume=0, max_volume=10, virtual_rows=2)
        c.update(skind=skind, dkind=dkind, mode=mode)
        return optimize_partition_by(mk(skind, "S"), mk(dkind, "D"), mode, "label")
    from robotools.worklists.utils import partition_by_column
    n = p["n"]
    S = [mk_well(ctx, f"s{i}") for i in range(n)]
    D = [mk_well(ctx, f"d{i}") for i in range(n)]
    V = [ctx.real(f"v{i}", 0, common.BIG) for i in range(n)]
    c.update(S=S, D=D, V=V)
    # the arguments are Iterables: lists, tuples or one-shot iterators / generators
    arg = ctx.choose("argkind", ["lists", "tuples", "iter-sources", "iter-destinations", "generators"]) if n >= 2 else "lists"
    c["argkind"] = arg
    aS, aD, aV = list(S), list(D), list(V)
    if arg == "tuples":
        aS, aD, aV = tuple(S), tuple(D), tuple(V)
    elif arg == "iter-sources":
        aS = iter(list(S))
    elif arg == "iter-destinations":
        aD = iter(list(D))
    elif arg == "generators":
        aS, aD, aV = (x for x in list(S)), (x for x in list(D)), (x for x in list(V))
    return partition_by_column(aS, aD, aV, p["mode"])


def colnum(ctx, w):
    if ctx.symbolic:
        from symex import core
        return core.SInt(ctx, (w.chars[1] - 48) * 10 + (w.chars[2] - 48))
    return int(str(w)[1:])


def rowcode(ctx, w):
    if ctx.symbolic:
        from symex import core
        return core.SInt(ctx, w.chars[0])
    return ord(str(w)[0])


def judge(ctx, p, outcome):
    kind, val = outcome
    if kind not in ("ok", "exc"):
        return
    c = ctx.ctx
    if p["part"] == "optimize":
        mode = c["mode"]
        if kind == "exc":
            ctx.reach("optimize:rejected")
            if mode in ("auto", "source", "destination"):
                ctx.violate(f"C18: optimize_partition_by rejected the valid mode {mode!r}")
            return
        ctx.reach("optimize:ok")
        if mode not in ("auto", "source", "destination"):
            ctx.violate(f"C18: optimize_partition_by accepted the invalid mode {mode!r}")
            return
        st, dt = c["skind"] in ("trough", "ltrough"), c["dkind"] in ("trough", "ltrough")
        want = mode if mode != "auto" else ("destination" if (st and not dt) else "source")
        if val != want:
            ctx.violate(f"C18: optimize_partition_by({c['skind']}, {c['dkind']}, {mode!r}) = {val!r} instead of {want!r}")
        return
    if kind == "exc":
        ctx.reach("partition:rejected")
        if p["mode"] in ("source", "destination"):
            ctx.violate(f"C18: partition_by_column raised {type(val).__name__}: {val}")
        return
    if p["mode"] not in ("source", "destination"):
        if p["n"] > 0:
            ctx.violate(f"C18: invalid mode {p['mode']!r} accepted")
        return
    ctx.reach("partition:ok")
    groups = val
    S, D, V = c["S"], c["D"], c["V"]
    side = 0 if p["mode"] == "source" else 1
    flat = [(s, d, v) for g in groups for s, d, v in zip(*g)]
    if any(len(g[0]) != len(g[1]) or len(g[0]) != len(g[2]) for g in groups) or len(flat) != len(S):
        ctx.violate("C18: output does not contain exactly the input triples (count)")
        return
    if ctx.symbolic:
        vid = lambda v: v.t.get_id() if hasattr(v, "t") else ("const", float(v))   # volumes: same z3 term (array round-trips re-wrap the proxy)
        out = sorted((id(s), id(d), vid(v)) for s, d, v in flat)
        inp = sorted((id(s), id(d), vid(v)) for s, d, v in zip(S, D, V))
        if out != inp:
            ctx.violate("C18: a triple was torn apart, lost or duplicated")
            return
    else:
        out = sorted((str(s), str(d), float(v)) for s, d, v in flat)
        inp = sorted((str(s), str(d), float(v)) for s, d, v in zip(S, D, V))
        if out != inp:
            ctx.violate("C18: a triple was torn apart, lost or duplicated")
            return
    if len(groups) >= 2:
        ctx.reach("two-groups")
    if len(groups) == 1 and len(flat) >= 2:
        ctx.reach("one-group")
    if any(len(g[0]) == 0 for g in groups):
        ctx.violate("C18: empty group")
    prev = None
    for g in groups:
        wells = g[side]
        col0 = colnum(ctx, wells[0])
        for w in wells[1:]:
            ctx.prove(ctx.eq(colnum(ctx, w), col0), "C18: a group holds wells of different columns of the partitioning side")
        for a, b in zip(wells, wells[1:]):
            ctx.prove(ctx.le(rowcode(ctx, a), rowcode(ctx, b)), "C18: rows within a group are not ascending")
        if prev is not None:
            ctx.prove(ctx.lt(prev, col0), "C18: groups are not ordered by ascending column (or one column is split over two groups)")
        prev = col0


def describe(ctx, p, outcome):
    c = ctx.ctx
    if p["part"] == "optimize":
        return f"  optimize_partition_by({c.get('skind')}, {c.get('dkind')}, {c.get('mode')!r}) -> {outcome}"
    return f"  arguments as {c.get('argkind')}; sources={[str(x) for x in c['S']]} destinations={[str(x) for x in c['D']]} volumes={c['V']} mode={p['mode']}\n  -> {outcome[1]!r}"
