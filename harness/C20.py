"""C20 - every labware the constructors accept is internally consistent."""
from harness import common

ID = "C20"
ROWS = "ABCDEFGHIJKLMNOPQRSTUVWXYZ"
BOUNDS = {
    "quick": "(num) Labware(rows 1..2 x columns 1..2; per-well initial volumes for up to 2 wells, scalar for 2x2) and Trough(virtual_rows 1|3 x columns 1..2) with min_volume, max_volume and the initial volumes ranging over ALL "
             "IEEE-754 doubles (NaN, +-inf, -0.0 included), initial volumes given as scalar / flat list / 2-D list (per-column list for troughs), bit-precise; "
             "(layout) initial volumes as numpy arrays, C-ordered and as a transposed view, plates 2x2 / 2x3 with symbolic volumes; (alias) two labware built from one float array must not share state (concrete, real numpy); (size) rows in {-1,0,1,2,26,27,40,2.5,'2',None,True}, columns in {-1,0,1,2,120,2.5,None}, virtual_rows in {None,-1,0,1,26,27,2.5,'3'} with concrete "
             "volumes; (names) component_names / column_names for empty, filled and unknown wells and per-column lists of wrong length; every size case preceded by the construction of another labware of the same kind (same geometry, transposed, or the geometry with the same digit string, e.g. 11x20 before 1x120)",
    "thorough": "rows 1..3 x columns 1..3 for the numeric part",
}
OUTSIDE = "sizes not listed (the checks on sizes are comparisons against constants; 26/27 and 0/1 are their boundaries)"
ASSUMPTIONS = ["z3 FloatingPoint theory (RNE) = CPython/numpy binary64 comparisons"]


def shards(tier):
    out = []
    mx = 2 if tier == "quick" else 3
    for R in range(1, mx + 1):
        for C in range(1, mx + 1):
            for shape in ("scalar", "flat", "2d", "none"):
                if tier == "quick" and R * C > 2 and shape in ("flat", "2d"):
                    continue   # four independent doubles plus two limits: ~5 min of FP solving, thorough tier only
                out.append(dict(part="num", kind="plate", R=R, C=C, shape=shape))
    # initial volumes given as numpy arrays: C-ordered, and a transposed view (column-major in memory); Real arithmetic, layout is the subject
    for R, C in ((2, 2), (2, 3)):
        for shape in ("ndarray", "ndarrayT"):
            out.append(dict(part="layout", kind="plate", R=R, C=C, shape=shape))
    out.append(dict(part="alias", concrete=True))
    for V in (1, 3):
        for C in range(1, mx + 1):
            for shape in ("scalar", "flat"):
                out.append(dict(part="num", kind="trough", R=V, C=C, shape=shape))
    out.append(dict(part="size", kind="plate", concrete=True))
    out.append(dict(part="size", kind="trough", concrete=True))
    out.append(dict(part="names", concrete=True))
    return out


def weight(p):
    return p.get("R", 1) * p.get("C", 1) * 10


def engine_opts(p, tier):
    if p["part"] == "layout":
        return dict(mode="real")
    if p["part"] == "num":
        return dict(mode="fp", lazy=True, rlimit=0, timeout_ms=300_000)
    return dict(mode="real")


def witnesses(tier):
    return {"num:ok", "num:rejected", "size:ok", "size:rejected", "names:ok", "names:rejected", "layout:ok", "alias:ok"}


def scenario(ctx, p):
    ns = common.rt()
    c = ctx.ctx
    part = p["part"]
    if part == "num":
        R, C = p["R"], p["C"]
        vmin = ctx.real("min_volume", nan=True)
        vmax = ctx.real("max_volume", nan=True)
        shape = p["shape"]
        realR = R if p["kind"] == "plate" else 1
        if shape == "scalar":
            s = ctx.real("iv", nan=True)
            given = [[s] * C for _ in range(realR)]
            arg = s
        elif shape == "none":
            given = [[0.0] * C for _ in range(realR)]
            arg = None
        else:
            given = [[ctx.real(f"iv{r}_{cc}", nan=True) for cc in range(C)] for r in range(realR)]
            arg = given if shape == "2d" else [given[r][cc] for r in range(realR) for cc in range(C)]
        c.update(vmin=vmin, vmax=vmax, given=given, R=R, C=C, realR=realR, kind=p["kind"])
        if p["kind"] == "plate":
            return ns.Labware("L", R, C, min_volume=vmin, max_volume=vmax, initial_volumes=arg)
        return ns.Trough("L", R, C, min_volume=vmin, max_volume=vmax, initial_volumes=arg)
    if part == "layout":
        R, C = p["R"], p["C"]
        np = ctx.np
        given = [[ctx.real(f"iv{r}_{cc}", 0, 50) for cc in range(C)] for r in range(R)]
        if p["shape"] == "ndarray":
            arg = np.array(given)
        else:
            arg = np.array([[given[r][cc] for r in range(R)] for cc in range(C)]).T   # same logical content, column-major in memory
        c.update(given=given, R=R, C=C, realR=R, kind="plate", vmin=0.0, vmax=100.0)
        return ns.Labware("L", R, C, min_volume=0.0, max_volume=100.0, initial_volumes=arg)
    if part == "alias":
        import numpy
        arr = numpy.array([[5.0, 6.0], [7.0, 8.0]])
        keep = arr.copy()
        A = ns.Labware("A", 2, 2, min_volume=0, max_volume=100, initial_volumes=arr)
        B = ns.Labware("B", 2, 2, min_volume=0, max_volume=100, initial_volumes=arr)
        A.add("A01", 10.0)
        A.remove("B02", 1.0)
        tarr = numpy.array([5.0, 6.0])
        T = ns.Trough("T", 3, 2, min_volume=0, max_volume=100, initial_volumes=tarr)
        T.add("B01", 1.0)
        c.update(alias=dict(arr=arr.tolist(), keep=keep.tolist(), A=A.volumes.tolist(), B=B.volumes.tolist(), B_hist=B.history[0][1].tolist(), tarr=tarr.tolist(), T=T.volumes.tolist()))
        return A
    if part == "size":
        if p["kind"] == "plate":
            rows = ctx.choose("rows", [-1, 0, 1, 2, 26, 27, 40, 2.5, "2", None, True])
            cols = ctx.choose("columns", [-1, 0, 1, 2, 120, 2.5, None])
            vr = ctx.choose("virtual_rows", [None, -1, 0, 1, 3, 26, 27, 2.5, "3"]) if rows in (1, 2) and cols in (1, 2) else None
            c.update(rows=rows, cols=cols, vr=vr, kind="plate")
            import warnings
            _earlier(ctx, ns, c, rows, cols, vr, False)
            with warnings.catch_warnings():
                warnings.simplefilter("ignore")
                return ns.Labware("L", rows, cols, min_volume=0, max_volume=100, initial_volumes=5, virtual_rows=vr)
        vr = ctx.choose("virtual_rows", [-1, 0, 1, 3, 26, 27, 2.5, "3", None])
        cols = ctx.choose("columns", [-1, 0, 1, 2, 2.5])
        c.update(rows=1, cols=cols, vr=vr, kind="trough")
        _earlier(ctx, ns, c, vr, cols, None, True)
        return ns.Trough("L", vr, cols, min_volume=0, max_volume=100, initial_volumes=5)
    # names
    case = ctx.choose("case", ["plate-ok", "plate-empty-named", "plate-unknown-well", "trough-ok", "trough-empty-named", "trough-short-names", "trough-short-volumes",
                               "trough-long-volumes", "plate-none-name", "legacy-trough-virtual-row-name", "legacy-trough-ok"])
    c["case"] = case
    if case == "plate-ok":
        return ns.Labware("L", 2, 2, min_volume=0, max_volume=100, initial_volumes=[[5, 0], [0, 7]], component_names={"A01": "water", "B02": None})
    if case == "plate-none-name":
        return ns.Labware("L", 2, 2, min_volume=0, max_volume=100, initial_volumes=[[5, 0], [0, 7]], component_names={"A02": None})
    if case == "plate-empty-named":
        return ns.Labware("L", 2, 2, min_volume=0, max_volume=100, initial_volumes=[[5, 0], [0, 7]], component_names={"A02": "water"})
    if case == "plate-unknown-well":
        return ns.Labware("L", 2, 2, min_volume=0, max_volume=100, initial_volumes=[[5, 0], [0, 7]], component_names={"C01": "water"})
    if case == "trough-ok":
        return ns.Trough("L", 3, 2, min_volume=0, max_volume=100, initial_volumes=[5, 0], column_names=["water", None])
    if case == "trough-empty-named":
        return ns.Trough("L", 3, 2, min_volume=0, max_volume=100, initial_volumes=[5, 0], column_names=["water", "acid"])
    if case == "trough-short-names":
        return ns.Trough("L", 3, 2, min_volume=0, max_volume=100, initial_volumes=[5, 5], column_names=["water"])
    if case in ("legacy-trough-virtual-row-name", "legacy-trough-ok"):
        import warnings
        with warnings.catch_warnings():
            warnings.simplefilter("ignore")
            # a trough declared through the generic constructor: only the real row (A) can be named
            names = {"B01": "water"} if case == "legacy-trough-virtual-row-name" else {"A01": "water"}
            return ns.Labware("L", 1, 2, min_volume=0, max_volume=100, initial_volumes=[[5, 5]], virtual_rows=3, component_names=names)
    if case == "trough-short-volumes":
        return ns.Trough("L", 3, 2, min_volume=0, max_volume=100, initial_volumes=[5])
    return ns.Trough("L", 3, 2, min_volume=0, max_volume=100, initial_volumes=[5, 5, 5])


def _earlier(ctx, ns, c, rows, cols, vr, trough):
    """history: another labware of the same kind was constructed earlier in this process - the transposed geometry, or one whose
    sizes written one after the other give the same digits (1x12 / 11x2), or the same geometry"""
    isint = lambda x: isinstance(x, int) and not isinstance(x, bool)
    if not (isint(rows) and isint(cols) and 1 <= rows <= 26 and cols >= 1 and vr is None):
        return
    digits = f"{rows}{cols}"
    resplit = [(int(digits[:i]), int(digits[i:])) for i in range(1, len(digits)) if digits[i] != "0" and 1 <= int(digits[:i]) <= 26 and (int(digits[:i]), int(digits[i:])) != (rows, cols)]
    options = [None, "same"] + (["transposed"] if cols <= 26 and cols != rows else []) + (["digits"] if resplit else [])
    how = ctx.choose("earlier", options)
    c["earlier"] = how
    if how is None:
        return
    r0, c0 = {"same": (rows, cols), "transposed": (cols, rows), "digits": resplit[0] if resplit else (rows, cols)}[how]
    c["earlier"] = f"{how} {r0}x{c0}"
    if trough:
        ns.Trough("E", r0, c0, min_volume=0, max_volume=100, initial_volumes=1)
    else:
        ns.Labware("E", r0, c0, min_volume=0, max_volume=100, initial_volumes=1)


def grid_ok(ctx, lab, nrows_ids, realR, C, trough):
    ids = [[f"{ROWS[r]}{c + 1:02d}" for c in range(C)] for r in range(nrows_ids)]
    msgs = []
    if tuple(lab.wells.shape) != (nrows_ids, C) or lab.wells.tolist() != ids:
        msgs.append(f"well-id array has shape {tuple(lab.wells.shape)} instead of {(nrows_ids, C)} or wrong ids")
    if tuple(lab._volumes.shape) != (realR, C):
        msgs.append(f"volume array has shape {tuple(lab._volumes.shape)} instead of {(realR, C)}")
    want_idx = {ids[r][c]: ((0, c) if trough else (r, c)) for r in range(nrows_ids) for c in range(C)}
    if {k: tuple(v) for k, v in lab.indices.items()} != want_idx:
        msgs.append("index map does not cover exactly the well ids of the grid")
    if len(lab._history) != 1 or lab._labels != ["initial"]:
        msgs.append("history does not consist of exactly the initial state")
    return msgs


def judge(ctx, p, outcome):
    kind, val = outcome
    if kind not in ("ok", "exc"):
        return
    c = ctx.ctx
    part = p["part"]
    if part == "num":
        judge_num(ctx, p, c, kind, val)
        return
    if part == "layout":
        if kind == "exc":
            ctx.violate(f"C20: a valid numpy array of initial volumes was rejected: {type(val).__name__}: {val}")
            return
        ctx.reach("layout:ok")
        lab = val
        given = c["given"]
        for m in grid_ok(ctx, lab, c["R"], c["R"], c["C"], False):
            ctx.violate(f"C20: {m}")
            return
        ctx.prove(ctx.all_of([ctx.eq(lab._volumes[r, cc], given[r][cc]) for r in range(c["R"]) for cc in range(c["C"])]),
                  "C20: initial volumes given as a numpy array are not laid out as given (memory layout of the argument must not matter)")
        ctx.prove(ctx.all_of([ctx.eq(lab._history[0][r, cc], given[r][cc]) for r in range(c["R"]) for cc in range(c["C"])]), "C20: the initial history entry differs from the given volumes")
        for r in range(c["R"]):
            for cc in range(c["C"]):
                tot = 0
                for k_, arr in lab.composition.items():
                    tot = tot + arr[r, cc]
                ctx.prove(ctx.eq(tot, ctx.ite(given[r][cc] > 0, 1, 0)), "C20: the 100 % component does not sit on precisely the non-empty wells")
        return
    if part == "alias":
        if kind == "exc":
            ctx.violate(f"C20: {type(val).__name__}: {val}")
            return
        ctx.reach("alias:ok")
        a = c["alias"]
        if a["arr"] != a["keep"] or a["tarr"] != [5.0, 6.0]:
            ctx.violate("C20: operations on a labware changed the array that was passed as initial_volumes", info=repr(a))
        if a["B"] != a["keep"] or a["B_hist"] != a["keep"]:
            ctx.violate("C20: two labware built from the same initial_volumes array share their volumes", info=repr(a))
        if a["A"] != [[15.0, 6.0], [7.0, 7.0]] or a["T"] != [[6.0, 6.0]]:
            ctx.violate("C20: volumes after add/remove on a labware built from a numpy array are wrong", info=repr(a))
        return
    if part == "size":
        rows, cols, vr = c["rows"], c["cols"], c["vr"]
        isint = lambda x: isinstance(x, int) and not isinstance(x, bool)
        if c["kind"] == "plate":
            valid = isint(rows) and 1 <= rows <= 26 and isint(cols) and cols >= 1 and (vr is None or (rows == 1 and isint(vr) and 1 <= vr <= 26))
            if rows is True:
                valid = None   # bool is an int in Python: not constrained
        else:
            valid = isint(vr) and 1 <= vr <= 26 and isint(cols) and cols >= 1
        spec = f"rows={rows!r} columns={cols!r} virtual_rows={vr!r} (constructed earlier: {c.get('earlier')})"
        if kind == "exc":
            ctx.reach("size:rejected")
            if valid:
                ctx.violate("C20: a representable geometry was rejected", info=f"{spec}: {type(val).__name__}: {val}")
            elif valid is False and not isinstance(val, ValueError):
                ctx.violate("C20: an unrepresentable geometry raised something else than ValueError", info=f"{spec}: {type(val).__name__}: {val}")
            return
        ctx.reach("size:ok")
        if valid is False:
            ctx.violate("C20: an unrepresentable geometry was accepted", info=spec)
            return
        if valid is None:
            return
        lab = val
        trough = vr is not None
        for m in grid_ok(ctx, lab, vr if trough else rows, 1 if trough else rows, cols, trough):
            ctx.violate(f"C20: {m}", info=spec)
        return
    # names
    case = c["case"]
    should_ok = case in ("plate-ok", "trough-ok", "plate-none-name", "legacy-trough-ok")
    if kind == "exc":
        ctx.reach("names:rejected")
        if should_ok:
            ctx.violate(f"C20: valid naming specification rejected ({case}): {val}")
        elif not isinstance(val, ValueError):
            ctx.violate(f"C20: {case} raised {type(val).__name__} instead of ValueError", info=str(val))
        return
    ctx.reach("names:ok")
    if not should_ok:
        ctx.violate(f"C20: unrepresentable specification accepted ({case})")
        return
    lab = val
    comp = {k: v.tolist() for k, v in lab.composition.items()}
    want = {"plate-ok": {"water": [[1, 0], [0, 0]], "L.B02": [[0, 0], [0, 1]]}, "plate-none-name": {"L.A01": [[1, 0], [0, 0]], "L.B02": [[0, 0], [0, 1]]},
            "trough-ok": {"water": [[1, 0]]}, "legacy-trough-ok": {"water": [[1, 0]], "L": [[0, 1]]}}[case]
    if comp != want:
        ctx.violate(f"C20: initial composition {comp} instead of {want} ({case})")


def judge_num(ctx, p, c, kind, val):
    import math
    vmin, vmax, given = c["vmin"], c["vmax"], c["given"]
    R, C, realR = c["R"], c["C"], c["realR"]
    cells = [given[r][cc] for r in range(realR) for cc in range(C)]
    fin = lambda x: ctx.finite(x) if ctx.symbolic else (not (math.isnan(float(x)) or math.isinf(float(x))))
    valid = ctx.all_of([ctx.le(0, vmin), ctx.lt(vmin, vmax)] + [ctx.all_of([fin(x), ctx.le(0, x), ctx.le(x, vmax)]) for x in cells])
    if kind == "exc":
        ctx.reach("num:rejected")
        if not isinstance(val, ValueError):
            ctx.violate(f"C20: invalid numeric specification raised {type(val).__name__} instead of ValueError", info=str(val))
        ctx.prove(ctx.not_(valid), "C20: a valid specification (0 <= min < max, finite volumes in [0, max]) was rejected")
        return
    ctx.reach("num:ok")
    lab = val
    trough = c["kind"] == "trough"
    for m in grid_ok(ctx, lab, R, realR, C, trough):
        ctx.violate(f"C20: {m}")
        return
    ctx.prove(ctx.all_of([ctx.le(0, vmin), ctx.lt(vmin, vmax)]), "C20: accepted although not 0 <= min_volume < max_volume (NaN limits included)")
    for r in range(realR):
        for cc in range(C):
            v = lab._volumes[r, cc]
            g = given[r][cc]
            ctx.prove(ctx.all_of([fin(v), ctx.le(0, v), ctx.le(v, vmax)]), "C20: accepted a non-finite / negative / too large initial volume")
            ctx.prove(ctx.any_of([ctx.eq(v, g), ctx.not_(fin(g))]), f"C20: initial volume of well ({r},{cc}) is not laid out as given")
            tot = 0
            for k, arr in lab.composition.items():
                tot = tot + arr[r, cc]
            ctx.prove(ctx.implies(ctx.all_of([fin(g), g > 0]), ctx.eq(tot, 1)), "C20: a filled well does not start as 100 % one component")
            ctx.prove(ctx.implies(ctx.eq(g, 0), ctx.eq(tot, 0)), "C20: an empty well starts with a component")


def describe(ctx, p, outcome):
    c = ctx.ctx
    keys = ("rows", "cols", "vr", "case", "vmin", "vmax", "given")
    lab = outcome[1] if outcome[0] == "ok" else None
    s = "  " + " ".join(f"{k}={c[k]!r}" for k in keys if k in c) + f" {p}"
    if lab is not None and hasattr(lab, "wells"):
        s += f"\n  accepted: wells.shape={tuple(lab.wells.shape)} volumes={lab.volumes.tolist()} min={lab.min_volume} max={lab.max_volume}"
    else:
        s += f"\n  outcome: {outcome}"
    return s
