"""C09 - every record is well-formed and carries exactly the arguments given."""
from harness import common

ID = "C09"
BOUNDS = {
    "quick": "every emitter called once with all arguments symbolic at the same time: text fields as abstract strings (length 0..40, may contain ';'), "
             "comments as character vectors of every length 0..4 over printable Latin-1 + newline/tab, volume as a real (any sign, any magnitude) and, "
             "separately, as an IEEE-754 double incl. NaN/inf, position / wash scheme / DiTi index / ranges / multi_disp as unbounded symbolic integers "
             "plus non-integer representatives (1.0, True, '1', None, 2.5), tips {default, 3, (1,2), T4, 0, 9, 2.5, Tip.Any in a list}, "
             "exclusion lists of <=2 symbolic integers, both directions plus an invalid one, worklist max_volume symbolic, DiTi mode on/off, "
             "four preceding-record contexts for set_diti; pass-through via aspirate / distribute keyword arguments; tips also as one-shot iterators / generators; a reagent distribution preceded by an identical (equally reduced) one on the same worklist",
    "thorough": "comments up to length 6, exclusion lists of <=3, pass-through via dispense and transfer as well",
}
OUTSIDE = "strings longer than 40 characters, non-printable characters other than newline/tab in comments, the numeric value of grid/site-like fields that the property does not constrain (position 0, range ends of R records)"
ASSUMPTIONS = ["an abstract string is exactly characterised by its length and the presence of the characters the code asks about; a character the code never asked "
               "about is unconstrained, so a text field whose ';' flag was never examined is reported as unvalidated"]

TEXT_WELL = ("rack_label", "rack_id", "rack_type", "tube_id", "liquid_class", "forced_rack_type")
LIMIT32 = ("rack_label", "rack_id", "rack_type")
TIPS = {"default": None, "3": 3, "(1,2)": (1, 2), "T4": "T4", "0": 0, "9": 9, "2.5": 2.5, "[Any]": "[Any]", "[2,T2]": "[2,T2]",
        "iter(1,4)": "iter(1,4)", "gen(T1,8)": "gen(T1,8)", "iter(1,12)": "iter(1,12)"}   # one-shot iterables are Iterables too
TIPMASK = {"default": "", "3": "4", "(1,2)": "3", "T4": "8", "[2,T2]": "2", "iter(1,4)": "9", "gen(T1,8)": "129"}


def shards(tier):
    out = []
    for kind in ("A", "D"):
        out.append(dict(part="well", kind=kind, tips=list(TIPS), positions=["sym"]))
        out.append(dict(part="well", kind=kind, tips=["default"], positions=[2.0, "3", None, True]))
    out.append(dict(part="wellfp", kind="A"))
    for nex in (0, 1, 2) if tier == "quick" else (0, 1, 2, 3):
        out.append(dict(part="reagent", nex=nex))
    for L in range(0, 5 if tier == "quick" else 7):
        out.append(dict(part="comment", L=L))
    out.append(dict(part="misc"))
    for dev in ("evo", "fluent"):
        out.append(dict(part="distribute", dev=dev))
        out.append(dict(part="passthrough", dev=dev, op="aspirate"))
        if tier == "thorough":
            out.append(dict(part="passthrough", dev=dev, op="dispense"))
    return out


def weight(p):
    return {"comment": p.get("L", 0) ** 2, "reagent": 30, "well": 20}.get(p["part"], 5)


def engine_opts(p, tier):
    if p["part"] == "wellfp":
        return dict(mode="fp", lazy=True, rlimit=0, timeout_ms=300_000)
    return dict(mode="real", int_lo=-2, int_hi=6)


def witnesses(tier):
    return {"well:ok", "well:rejected", "reagent:ok", "reagent:rejected", "comment:ok", "comment:rejected", "misc:ok", "misc:rejected", "fp:ok", "fp:rejected",
            "distribute:ok", "passthrough:ok"}


# ------------------------------------------------------------------------------------------------ helpers (symbolic + concrete)
def has_sep(ctx, s, ch=";"):
    if ctx.symbolic and hasattr(s, "flag"):
        from symex import core
        return core.SBool(ctx, s.flag(ch))
    return ch in s


def length(ctx, s):
    return s.sym_len() if hasattr(s, "sym_len") else len(s)


def text(s):
    return str.__str__(s)


def check_text_fields(ctx, fields, args, names, limited, what):
    for i, n in names.items():
        if ctx.symbolic:
            from symex.strings import field_equals
            same = field_equals(ctx, fields[i], args[n])
        else:
            same = fields[i] == args[n]
        ctx.prove(same, f"C09: field {i} of the {what} record does not carry {n}")
        ctx.prove(ctx.not_(has_sep(ctx, args[n])), f"C09: a separator inside {n} was accepted ({what})")
        if n in limited:
            ctx.prove(ctx.le(length(ctx, args[n]), 32), f"C09: {n} longer than 32 characters was accepted ({what})")


def mktip(spec):
    from robotools.evotools.types import Tip
    v = TIPS[spec]
    if v == "T4":
        return Tip.T4
    if v == "[Any]":
        return [Tip.Any, 1]
    if v == "[2,T2]":
        return [2, Tip.T2]
    if v == "iter(1,4)":
        return iter([1, 4])
    if v == "gen(T1,8)":
        return (t for t in (Tip.T1, 8))
    if v == "iter(1,12)":
        return iter([1, 12])
    return v


# ------------------------------------------------------------------------------------------------ scenario
def scenario(ctx, p):
    ns = common.rt()
    part = p["part"]
    c = ctx.ctx
    c["part"] = part
    if part in ("well", "wellfp"):
        diti = False
        m = ctx.real("wl_max")
        if part == "well":
            ctx.assume(m > 0)
        wl = ns.BaseWorklist(max_volume=m)
        a = {n: ctx.absstr(n) for n in TEXT_WELL}
        posk = ctx.choose("poskind", p.get("positions", ["sym"]))
        pos = ctx.int("position") if posk == "sym" else posk
        vol = ctx.real("volume", nan=True) if part == "wellfp" else ctx.real("volume")
        tipk = ctx.choose("tip", p.get("tips", ["default"]))
        kw = dict(liquid_class=a["liquid_class"], rack_id=a["rack_id"], tube_id=a["tube_id"], rack_type=a["rack_type"], forced_rack_type=a["forced_rack_type"])
        if tipk != "default":
            kw["tip"] = mktip(tipk)
        c.update(wl=wl, a=a, pos=pos, posk=posk, vol=vol, tipk=tipk, m=m)
        (wl.aspirate_well if p["kind"] == "A" else wl.dispense_well)(a["rack_label"], pos, vol, **kw)
        return wl
    if part == "reagent":
        m = ctx.real("wl_max")
        ctx.assume(m > 0)
        wl = ns.BaseWorklist(max_volume=m)
        names = ("src_rack_label", "dst_rack_label", "liquid_class", "src_rack_id", "src_rack_type", "dst_rack_id", "dst_rack_type")
        a = {n: ctx.absstr(n) for n in names}
        vol = ctx.real("volume")
        rng = {n: ctx.int(n) for n in ("src_start", "src_end", "dst_start", "dst_end")}
        ctx.assume(rng["dst_start"] >= 1)
        ctx.assume(rng["dst_end"] <= 6)
        direction = ctx.choose("direction", ["left_to_right", "right_to_left", "up", None] if p["nex"] < 2 else ["right_to_left"])
        exk = ctx.choose("excl", ["none", "list"]) if p["nex"] == 0 else "list"
        ex = None if exk == "none" else [ctx.int(f"ex{i}") for i in range(p["nex"])]
        c["badex"] = None
        if ex and ctx.choose("exkind", ["ints", "non-integer"]) == "non-integer":
            # a non-integer 'well number' strictly inside the destination interval must be rejected
            ctx.assume(rng["dst_start"] <= 2)
            ctx.assume(rng["dst_end"] >= 3)
            ex[0] = 2.5
            c["badex"] = 2.5
        md = ctx.choose("multi_disp", [1, 3] if p["nex"] < 2 else [3])
        reuse = ctx.int("diti_reuse")
        c.update(wl=wl, a=a, vol=vol, rng=rng, direction=direction, ex=ex, md=md, reuse=reuse, m=m)
        if p["nex"] == 0 and ctx.choose("earlier", [None, "same-call"]) is not None:
            # history: the same worklist already holds the record of an identical (equally reduced) reagent distribution
            c["earlier"] = "same-call"
            try:
                wl.reagent_distribution("Earlier", rng["src_start"], rng["src_end"], "Plate0", 1, 6, volume=vol, multi_disp=md)
            except Exception:  # noqa: BLE001
                pass
            c["n0"] = len(wl)
        wl.reagent_distribution(a["src_rack_label"], rng["src_start"], rng["src_end"], a["dst_rack_label"], rng["dst_start"], rng["dst_end"], volume=vol,
                                diti_reuse=reuse, multi_disp=md, exclude_wells=ex, liquid_class=a["liquid_class"], direction=direction,
                                src_rack_id=a["src_rack_id"], src_rack_type=a["src_rack_type"], dst_rack_id=a["dst_rack_id"], dst_rack_type=a["dst_rack_type"])
        return wl
    if part == "comment":
        wl = ns.BaseWorklist()
        s = ctx.chars("comment", p["L"], 9, 255)
        if ctx.symbolic:
            import z3
            for ch in s.chars:
                ctx.add(z3.Or(ch == 9, ch == 10, z3.And(ch >= 32, ch <= 126), z3.And(ch >= 160, ch <= 255)))
        c.update(wl=wl, s=s)
        wl.comment(s)
        return wl
    if part == "misc":
        diti = ctx.choose("diti", [False, True])
        wl = ns.BaseWorklist(diti_mode=diti)
        pre = ctx.choose("pre", [[], ["B;"], ["W1;"], ["C;x", "B;"], ["B;", "C;x"]])
        wl.extend(pre)
        what = ctx.choose("what", ["wash", "set_diti", "decontaminate", "flush", "commit", "wash-default"])
        arg = None
        if what in ("wash", "set_diti"):
            k = ctx.choose("argkind", ["sym", 1.0, True, "2", None, 2.5])
            arg = ctx.int("arg") if k == "sym" else k
            c["argkind"] = k
        c.update(wl=wl, pre=pre, what=what, arg=arg, diti=diti, n0=len(pre))
        if what == "wash":
            wl.wash(arg)
        elif what == "wash-default":
            wl.wash()
        elif what == "set_diti":
            wl.set_diti(arg)
        else:
            getattr(wl, what)()
        return wl
    if part in ("distribute", "passthrough"):
        S = ns.Trough("S", 3, 2, min_volume=0, max_volume=1e6, initial_volumes=1e5)
        D = ns.Labware("D", 2, 3, min_volume=0, max_volume=1e6, initial_volumes=1e3)
        m = ctx.real("wl_max", None, 1e5)
        ctx.assume(m > 0)
        wl = common.make_worklist(ctx, p["dev"], m)
        vol = ctx.real("volume", 0, 1e4)
        if part == "distribute":
            names = ("liquid_class", "src_rack_id", "src_rack_type", "dst_rack_id", "dst_rack_type")
            a = {n: ctx.absstr(n) for n in names}
            label = ctx.chars("label", 2, 32, 126)
            c.update(wl=wl, a=a, vol=vol, label=label, m=m)
            wl.distribute(S, 1, D, ["A01", "B02"], volume=vol, label=label, **a)
        else:
            names = ("liquid_class", "rack_id", "rack_type", "tube_id", "forced_rack_type")
            a = {n: ctx.absstr(n) for n in names}
            c.update(wl=wl, a=a, vol=vol, m=m)
            lab = S if p["op"] == "aspirate" else D
            getattr(wl, p["op"])(lab, ["A01", "B02"], [vol, 0 if ctx.choose("second", ["zero", "same"]) == "zero" else vol], tip=(1, 2), label="step 1", **a)
        return wl
    raise AssertionError(part)


# ------------------------------------------------------------------------------------------------ judge
def judge(ctx, p, outcome):
    kind, val = outcome
    if kind not in ("ok", "exc"):
        return
    ns = common.rt()
    c = ctx.ctx
    part = c["part"]
    wl = c["wl"]
    recs = list(wl)
    if kind == "exc":
        n0 = c.get("n0", 0)
        if len(recs) != n0:
            ctx.violate(f"C09: a rejected {part} call appended records", info=repr(recs[n0:]))
        if not isinstance(val, (ValueError, ns.InvalidOperationError, TypeError, AssertionError)):
            ctx.violate(f"C09: unexpected exception type {type(val).__name__}: {val}")
        ctx.reach({"well": "well:rejected", "wellfp": "fp:rejected", "reagent": "reagent:rejected", "comment": "comment:rejected", "misc": "misc:rejected"}.get(part, "other:rejected"))
        return
    if part in ("well", "wellfp"):
        judge_well(ctx, p, c, recs)
    elif part == "reagent":
        judge_reagent(ctx, p, c, recs[c.get("n0", 0):])
    elif part == "comment":
        judge_comment(ctx, p, c, recs)
    elif part == "misc":
        judge_misc(ctx, p, c, recs)
    elif part == "distribute":
        ctx.reach("distribute:ok")
        rr = [r for r in recs if r.startswith("R;")]
        if len(rr) != 1:
            ctx.violate(f"C09: distribute emitted {len(rr)} R records")
            return
        f = rr[0].split(";")
        a = c["a"]
        if len(f) != 16 + (len(f) - 16):
            pass
        check_text_fields(ctx, f, a, {2: "src_rack_id", 3: "src_rack_type", 7: "dst_rack_id", 8: "dst_rack_type", 12: "liquid_class"},
                          ("src_rack_id", "src_rack_type", "dst_rack_id", "dst_rack_type"), "R (distribute)")
        if f[1] != "S" or f[6] != "D":
            ctx.violate("C09: distribute R record names the wrong racks")
        v, _ = ctx.field(f[11])
        ctx.prove(ctx.eq(v, c["vol"]), "C09: R record volume differs from the argument")
        ctx.prove(ctx.le(c["vol"], c["m"]), "C09: distribute accepted a volume above max_volume")
        cm = [r for r in recs if r.startswith("C;")]
        for r in cm:
            ctx.prove(ctx.not_(has_chr(ctx, r[2:], 59)), "C09: separator inside a comment record (distribute label)")
    elif part == "passthrough":
        ctx.reach("passthrough:ok")
        body = [r for r in recs if r[0] in "AD"]
        a = c["a"]
        for r in body:
            f = r.split(";")
            if len(f) != 11:
                ctx.violate(f"C09: {f[0]} record with {len(f)} fields")
                continue
            check_text_fields(ctx, f, a, {2: "rack_id", 3: "rack_type", 5: "tube_id", 7: "liquid_class", 10: "forced_rack_type"}, ("rack_id", "rack_type"), f"{f[0]} (pass-through)")
            if f[9] != "3":
                ctx.violate(f"C09: pass-through tip mask {f[9]!r} instead of 3")
            v, ex = ctx.field(f[6])
            ctx.prove(ctx.within(v, c["vol"], common_half()), "C09: pass-through volume field differs from the argument")


def common_half():
    from fractions import Fraction
    return Fraction(1, 200)


def has_chr(ctx, tok, code):
    if ctx.symbolic and tok in ctx.tokens:
        import z3
        from symex import core
        s = ctx.tokens[tok][0]
        if not s.chars:
            return False
        return core.SBool(ctx, z3.Or(*[ch == code for ch in s.chars]))
    return chr(code) in tok


def judge_well(ctx, p, c, recs):
    fp = c["part"] == "wellfp"
    ctx.reach("fp:ok" if fp else "well:ok")
    if len(recs) != 1:
        ctx.violate(f"C09: {p['kind']} call appended {len(recs)} records")
        return
    f = recs[0].split(";")
    if len(f) != 11 or f[0] != p["kind"]:
        ctx.violate(f"C09: {p['kind']} record has {len(f)} fields / type {f[0]!r}", info=recs[0])
        return
    a = c["a"]
    names = {1: "rack_label", 2: "rack_id", 3: "rack_type", 5: "tube_id", 7: "liquid_class", 10: "forced_rack_type"}
    if f[8] != "":
        ctx.violate("C09: tip type field is not empty")
    if not fp:
        check_text_fields(ctx, f, a, names, LIMIT32 + ("forced_rack_type",), p["kind"])
    # position
    if c["posk"] != "sym":
        ctx.violate(f"C09: non-integer position {c['posk']!r} was accepted and rendered as {f[4]!r}")
    else:
        pv = ctx.int_field(f[4])
        ctx.prove(ctx.all_of([ctx.eq(pv, c["pos"]), ctx.le(0, c["pos"])]), "C09: position field differs from the argument or a negative position was accepted")
    # tip mask
    want = TIPMASK.get(c["tipk"])
    if want is None:
        ctx.violate(f"C09: invalid tip {c['tipk']} was accepted (mask {f[9]!r})")
    elif f[9] != want:
        ctx.violate(f"C09: tip mask {f[9]!r} instead of {want!r} for tip {c['tipk']}")
    # volume
    v, ex = ctx.field(f[6])
    vol, m = c["vol"], c["m"]
    if fp:
        import z3
        from symex import core
        t = vol.t
        ok = z3.And(z3.Not(z3.fpIsNaN(t)), z3.Not(z3.fpIsInf(t)), z3.fpGEQ(t, z3.FPVal(0.0, core.F64)), z3.fpLEQ(t, z3.FPVal(7158278.0, core.F64)), z3.fpLEQ(t, m.t))
        ctx.prove(core.SBool(ctx, ok), "C09: a NaN / infinite / negative / oversized volume was accepted (binary64)")
        return
    if ctx.symbolic:
        if ctx.tokens.get(f[6], (None, None))[1] != ".2f" or ex is not vol:
            ctx.violate("C09: volume field is not the two-decimal rendering of the volume argument")
    ctx.prove(ctx.all_of([ctx.le(0, vol), ctx.le(vol, 7158278), ctx.le(vol, m)]), "C09: a negative / oversized volume was accepted")
    ctx.prove(ctx.within(v, vol, common_half()), "C09: volume field differs from the argument by more than the two-decimal rounding")


def judge_reagent(ctx, p, c, recs):
    ctx.reach("reagent:ok")
    if c.get("badex") is not None:
        ctx.violate("C09: a non-integer excluded well was accepted", info=repr(recs))
        return
    if len(recs) != 1:
        ctx.violate(f"C09: reagent_distribution appended {len(recs)} records")
        return
    f = recs[0].split(";")
    nex = len(c["ex"] or [])
    if f[0] != "R" or len(f) != 16 + nex:
        ctx.violate(f"C09: R record has {len(f)} fields instead of {16 + nex}", info=recs[0])
        return
    if c["direction"] not in ("left_to_right", "right_to_left"):
        ctx.violate(f"C09: invalid direction {c['direction']!r} accepted")
        return
    if f[15] != ("0" if c["direction"] == "left_to_right" else "1"):
        ctx.violate("C09: direction field wrong")
    a = c["a"]
    names = {1: "src_rack_label", 2: "src_rack_id", 3: "src_rack_type", 6: "dst_rack_label", 7: "dst_rack_id", 8: "dst_rack_type", 12: "liquid_class"}
    check_text_fields(ctx, f, a, names, ("src_rack_label", "src_rack_id", "src_rack_type", "dst_rack_label", "dst_rack_id", "dst_rack_type"), "R")
    for i, n in {4: "src_start", 5: "src_end", 9: "dst_start", 10: "dst_end"}.items():
        ctx.prove(ctx.eq(ctx.int_field(f[i]), c["rng"][n]), f"C09: R record field {n} differs from the argument")
    ctx.prove(ctx.eq(ctx.int_field(f[13]), c["reuse"]), "C09: diti_reuse field differs from the argument")
    v, _ = ctx.field(f[11])
    vol, m = c["vol"], c["m"]
    ctx.prove(ctx.eq(v, vol), "C09: R record volume differs from the argument")
    ctx.prove(ctx.all_of([ctx.le(0, vol), ctx.le(vol, 7158278), ctx.le(vol, m)]), "C09: reagent_distribution accepted a negative / oversized volume")
    n = ctx.int_field(f[14])
    ctx.prove(ctx.le(n * vol, m), "C09: multi-dispense count does not fit max_volume")
    ctx.prove(ctx.any_of([ctx.eq(n, c["md"]), ctx.lt(m, (n + 1) * vol)]), "C09: multi-dispense count reduced further than needed")
    exf = [ctx.int_field(x) for x in f[16:]]
    for x, y in zip(exf, exf[1:]):
        ctx.prove(ctx.le(x, y), "C09: exclusion list is not sorted")
    for x in exf:
        ctx.prove(ctx.all_of([ctx.le(c["rng"]["dst_start"], x), ctx.le(x, c["rng"]["dst_end"])]), "C09: an excluded well outside the destination range was accepted")
    # the emitted exclusions are exactly the given ones (as a multiset): sums of powers distinguish small lists
    if nex:
        given = c["ex"]
        ctx.prove(ctx.all_of([ctx.any_of([ctx.eq(x, g) for g in given]) for x in exf] + [ctx.any_of([ctx.eq(x, g) for x in exf]) for g in given]),
                  "C09: emitted exclusion list differs from the given one")


def classify(ctx, ch):
    """-> (is line break, is white space) as decided on this path; None = not decided by the path condition"""
    if not ctx.symbolic:
        return ord(ch) == 10, ch.isspace()
    import z3

    def decided(cond):
        if ctx.check(z3.Not(cond)) == "unsat":
            return True
        if ctx.check(cond) == "unsat":
            return False
        return None

    ws = z3.Or(ch == 32, ch == 9, ch == 10, ch == 160, ch == 133, z3.And(ch >= 11, ch <= 13), z3.And(ch >= 28, ch <= 31))
    return decided(ch == 10), decided(ws)


def judge_comment(ctx, p, c, recs):
    ctx.reach("comment:ok")
    s = c["s"]
    chars = list(s.chars) if ctx.symbolic else list(s)
    cls = [classify(ctx, ch) for ch in chars]
    if any(nl is None for nl, _ in cls):
        ctx.violate("C09: the comment was emitted without its line breaks being examined")
        return
    # independent decoding: split at line breaks, strip white space, drop empty lines
    lines, cur = [], []
    for ch, (nl, ws) in zip(chars, cls):
        if nl:
            lines.append(cur)
            cur = []
        else:
            cur.append((ch, ws))
    lines.append(cur)
    want = []
    for ln in lines:
        while ln and ln[0][1] is True:
            ln = ln[1:]
        while ln and ln[-1][1] is True:
            ln = ln[:-1]
        if ln and (ln[0][1] is None or ln[-1][1] is None):
            ctx.violate("C09: a comment line was emitted without its surrounding white space being examined")
            return
        if ln:
            want.append([ch for ch, _ in ln])
    if len(recs) != len(want):
        ctx.violate(f"C09: comment produced {len(recs)} records instead of {len(want)}")
        return
    for r, w in zip(recs, want):
        if not r.startswith("C;"):
            ctx.violate(f"C09: malformed comment record {r!r}")
            continue
        body = r[2:]
        if ctx.symbolic:
            got = ctx.tokens[body][0].chars if body in ctx.tokens else None
            if got is None or len(got) != len(w) or any(x is not y for x, y in zip(got, w)):
                ctx.violate("C09: comment record does not carry the stripped line of the argument")
                continue
            import z3
            from symex import core
            ctx.prove(core.SBool(ctx, z3.And(*[z3.And(ch != 59, ch != 10, ch != 13) for ch in got])), "C09: separator or line break inside a comment record")
        else:
            if body != "".join(w):
                ctx.violate("C09: comment record does not carry the stripped line of the argument")
            if ";" in body or "\n" in body or "\r" in body:
                ctx.violate("C09: separator or line break inside a comment record")


def judge_misc(ctx, p, c, recs):
    ctx.reach("misc:ok")
    what, pre, arg, diti = c["what"], c["pre"], c["arg"], c["diti"]
    new = recs[len(pre):]
    if recs[:len(pre)] != pre:
        ctx.violate("C09: earlier records were altered")
    if len(new) != 1:
        ctx.violate(f"C09: {what} appended {len(new)} records")
        return
    (rec,) = new
    if what in ("wash", "wash-default"):
        if diti:
            if rec != "W;":
                ctx.violate(f"C09: DiTi-mode wash emitted {rec!r}")
            return
        if what == "wash-default":
            if rec != "W1;":
                ctx.violate(f"C09: default wash emitted {rec!r}")
            return
        if c["argkind"] != "sym":
            ctx.violate(f"C09: non-integer wash scheme {arg!r} was accepted and rendered as {rec!r}")
            return
        if not (rec.startswith("W") and rec.endswith(";")):
            ctx.violate(f"C09: malformed wash record {rec!r}")
            return
        v = ctx.int_field(rec[1:-1])
        ctx.prove(ctx.all_of([ctx.eq(v, arg), ctx.le(1, arg), ctx.le(arg, 4)]), "C09: wash scheme field differs from the argument or is outside 1..4")
    elif what == "set_diti":
        if not (len(pre) == 0 or pre[-1] == "B;"):
            ctx.violate(f"C09: DiTi type switch accepted after {pre[-1]!r}")
        if c["argkind"] != "sym":
            return   # the property does not demand rejection of a malformed DiTi index
        if not rec.startswith("S;"):
            ctx.violate(f"C09: malformed set-DiTi record {rec!r}")
            return
        ctx.prove(ctx.eq(ctx.int_field(rec[2:]), arg), "C09: DiTi index field differs from the argument")
    elif what == "decontaminate":
        if diti:
            ctx.violate("C09: decontamination wash accepted in DiTi mode")
        elif rec != "WD;":
            ctx.violate(f"C09: malformed decontamination record {rec!r}")
    elif what == "flush" and rec != "F;":
        ctx.violate(f"C09: malformed flush record {rec!r}")
    elif what == "commit" and rec != "B;":
        ctx.violate(f"C09: malformed break record {rec!r}")


def describe(ctx, p, outcome):
    c = ctx.ctx
    parts = [f"  part={c.get('part')}"]
    for k in ("a", "pos", "vol", "m", "tipk", "rng", "direction", "ex", "md", "s", "what", "arg", "pre", "diti", "label", "earlier", "n0"):
        if k in c:
            parts.append(f"  {k}={c[k]!r}")
    parts.append(f"  records={list(c['wl'])!r}" if "wl" in c else "")
    return "\n".join(parts)
