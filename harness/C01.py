"""C01 - the emitted worklist reproduces the tracked labware state when executed."""
from harness import common, wlops
from oracles import gwl

ID = "C01"
BOUNDS = {
    "quick": "one operation (aspirate|dispense|transfer|distribute) from an arbitrary valid state (symbolic per-well volumes, labware "
             "min/max_volume, worklist max_volume > 0, volume arguments >= 0); both devices; plate 2x2 and trough 3 virtual rows x 2 columns on "
             "either side, a trough 2x2 with a plate 2x2 (identical shape), plus same-labware transfers; k<=2 wells/triples chosen from 4 candidate ids (repeats allowed); <=3 split steps (k=1) / "
             "<=2 (k=2); partition_by auto/source/destination; wash 1/'reuse'; scalar and per-well volume arguments; distribute to 1-3 wells; plus one transfer between two plates built by the public constructor from ONE caller-owned float array",
    "thorough": "as quick, plus geometries plate 3x2 / 8x2 / 1x1 and troughs 1x1 / 8x1, <=4 split steps for k=1, 4 candidate wells per slot for k=2 with all "
                "partition modes, wash schemes 1,3,'flush','reuse', composition agreement for k=2 transfers without splitting incl. chained same-labware transfers",
}
OUTSIDE = "k>2 per call, more split steps than stated, other geometries, float rounding of the twin itself (Real arithmetic), sequences of >1 operation (covered inductively: the pre-state is arbitrary)"
ASSUMPTIONS = [
    "inductive step: the pre-state is any state with 0<=v<=max_volume, 0<=min_volume<max_volume, each real well initially 100 % its own component",
    "oracle: oracles/gwl.py (record grammar + numbering formulas), written without importing robotools",
    "volumes are exact reals (LRA/NRA); two-decimal rounding modelled exactly as round-half-even on reals",
]


def shards(tier):
    out = []
    base = [("p2x2", "p2x2"), ("p2x2", "t3x2"), ("t3x2", "p2x2"), ("t3x2", "t3x2")]
    same_shape = [("t2x2", "p2x2"), ("p2x2", "t2x2")]   # a trough and a plate of identical shape in one worklist
    extra = [("p3x2", "p8x2"), ("t8x1", "p8x2"), ("p1x1", "t1x1"), ("t1x1", "p1x1"), ("p8x2", "t8x1")] if tier == "thorough" else []
    for dev in ("evo", "fluent"):
        for sg, dg in base + extra:
            is_base = (sg, dg) in base
            for op in ("aspirate", "dispense"):
                out.append(dict(dev=dev, op=op, sgeo=sg, dgeo=dg, k=2, steps=1))
            if sg.startswith("t"):
                out.append(dict(dev=dev, op="distribute", sgeo=sg, dgeo=dg, k=1, steps=1, comp=True))
            for pb in (("auto", "source", "destination") if is_base else ("auto",)):
                out.append(dict(dev=dev, op="transfer", sgeo=sg, dgeo=dg, k=1, steps=3 if tier == "quick" else 4, partition_by=pb, comp=True,
                                washes=[1, "reuse"] if tier == "quick" else [1, 3, "flush", "reuse"]))
            if tier == "quick":
                out.append(dict(dev=dev, op="transfer", sgeo=sg, dgeo=dg, k=2, steps=2, partition_by="auto", washes=[1], comp=False, ncand=2))
            else:
                for pb in (("auto", "source", "destination") if is_base else ("auto",)):
                    out.append(dict(dev=dev, op="transfer", sgeo=sg, dgeo=dg, k=2, steps=2, partition_by=pb, washes=[1], comp=False, ncand=4 if is_base else 2))
                if is_base:
                    out.append(dict(dev=dev, op="transfer", sgeo=sg, dgeo=dg, k=2, steps=1, partition_by="auto", washes=[1], comp=True, ncand=2, wl_max=common.BIG * 2))
        for sg, dg in same_shape:
            out.append(dict(dev=dev, op="transfer", sgeo=sg, dgeo=dg, k=1, steps=2, partition_by="auto", washes=[1], comp=False))
            out.append(dict(dev=dev, op="transfer", sgeo=sg, dgeo=dg, k=2, steps=1, partition_by="auto", washes=[1], comp=False, ncand=2, wl_max=common.BIG * 2))
            if sg.startswith("t"):
                out.append(dict(dev=dev, op="distribute", sgeo=sg, dgeo=dg, k=1, steps=1))
        for sg in ("p2x2", "t3x2"):
            out.append(dict(dev=dev, op="transfer", sgeo=sg, dgeo=sg, same=True, k=1, steps=3, partition_by="auto", comp=True))
            if tier == "thorough":
                out.append(dict(dev=dev, op="transfer", sgeo=sg, dgeo=sg, same=True, k=2, steps=2, partition_by="auto", ncand=2))
        # argument shapes of the quantifier: broadcast singletons (scalar id / one-element list / scalar volume), 2-D arrays; a trough declared via Labware(virtual_rows=)
        for sg, dg in [("p2x2", "t3x2"), ("t3x2", "p2x2")]:
            out.append(dict(dev=dev, op="transfer", sgeo=sg, dgeo=dg, k=2, steps=1, partition_by="auto", washes=[1], ncand=2, wl_max=common.BIG * 2,
                            bcast=["src:scalar", "src:list1", "dst:scalar", "dst:list1", "vol:scalar", "vol:list1", "src:scalar+vol:scalar"]))
        out.append(dict(dev=dev, op="transfer", sgeo="p2x2", dgeo="p2x2", k=4, steps=1, partition_by="auto", washes=[1], shape2d=True, wl_max=common.BIG * 2))
        for sg, dg in [("lt3x2", "p2x2"), ("p2x2", "lt3x2")]:
            out.append(dict(dev=dev, op="transfer", sgeo=sg, dgeo=dg, k=1, steps=2, partition_by="auto", washes=[1]))
            out.append(dict(dev=dev, op="aspirate" if sg.startswith("lt") else "dispense", sgeo=sg, dgeo=dg, k=2, steps=1))
        out.append(dict(dev=dev, op="distribute", sgeo="lt3x2", dgeo="p2x2", k=1, steps=1))
        # chained: a well that is first a destination and then a source within one call, with composition tracking
        out.append(dict(dev=dev, op="transfer", sgeo="p3x2", dgeo="p3x2", same=True, k=2, steps=1, partition_by="auto", washes=[1], cands=[[0, 1], [1, 2]], comp=True, wl_max=common.BIG * 2))
        # both plates constructed by the public constructor from ONE caller-owned float array (the same fill array reused for two plates)
        out.append(dict(dev=dev, op="transfer", sgeo="p2x2", dgeo="p2x2", shared_init=True, k=1, steps=2, partition_by="auto", washes=[1]))
        # two operations in sequence on one worklist (the inductive argument is not the only support of the claim)
        T = dict(op="transfer", k=1, washes=[1], partition_by="auto")
        seqs = [[T, T], [dict(op="dispense", k=1, volshapes=["list"]), T], [T, dict(op="aspirate", k=1, volshapes=["list"])]]
        for sg, dg in ([("p2x2", "t3x2"), ("t3x2", "p2x2")] if tier == "quick" else base):
            for ops in (seqs[:1] if tier == "quick" else seqs):
                out.append(dict(dev=dev, op="seq", ops=ops, sgeo=sg, dgeo=dg, k=1, steps=2, ncand=2, comp=(tier == "thorough")))
    return out


def weight(p):
    return (p["k"] ** 3) * p["steps"] * (3 if p["op"] == "transfer" else 1)


def engine_opts(p, tier):
    return dict(mode="real", int_lo=1, int_hi=p["steps"])


def witnesses(tier):
    return {"ok:aspirate", "ok:dispense", "ok:transfer", "ok:distribute", "ok:seq", "split", "zero-skipped", "records>0"}


def scenario(ctx, p):
    W = wlops.build(ctx, p)
    ctx.ctx["W"] = W
    if p["op"] == "seq":
        wlops.run_seq(ctx, W, p["ops"])
    else:
        wlops.run(ctx, W)
    return W


def judge(ctx, p, outcome):
    kind, val = outcome
    if kind != "ok":
        return
    W = ctx.ctx["W"]
    recs = list(W.wl)
    ctx.reach(f"ok:{p['op']}")
    if recs:
        ctx.reach("records>0")
    nA = sum(1 for r in recs if r.startswith("A;"))
    if p["op"] in ("transfer", "seq") and nA > len(W.pairs):
        ctx.reach("split")
    if p["op"] in ("aspirate", "dispense") and nA + sum(1 for r in recs if r.startswith("D;")) < p["k"]:
        ctx.reach("zero-skipped")
    try:
        sim = wlops.simulate(ctx, W, with_comp=bool(p.get("comp")))
    except gwl.OracleReject as ex:
        ctx.violate(f"C01: emitted records are not executable: {ex}")
        return
    wlops.check_state_agreement(ctx, W, sim)
    wlops.check_flows(ctx, W, sim)
    if p.get("comp"):
        wlops.check_composition(ctx, W, sim)


def describe(ctx, p, outcome):
    W = ctx.ctx.get("W")
    if W is None:
        return ""
    lines = [f"  device={W.dev} op={p['op']} cfg={getattr(W, 'cfg', None)} worklist.max_volume={W.wl_max}"]
    for n, lab in W.labs.items():
        lines.append(f"  {n}: pre={ {k[1]: float(v) for k, v in W.pre.items() if k[0] == n} } min={lab.min_volume} max={lab.max_volume} post={lab.volumes.tolist()}")
    lines.append(f"  requested={[(r, w, s, float(v)) for r, w, s, v in W.named]}")
    lines.append("  records=" + repr(list(W.wl)))
    return "\n".join(lines)
