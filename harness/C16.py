"""C16 - EVO and Fluent worklists differ only in trough well numbers."""
from harness import common, wlops

ID = "C16"
BOUNDS = {
    "quick": "the same symbolic operation (aspirate, dispense, transfer with <=3 split steps and all partition modes, distribute) executed through an "
             "EvoWorklist and a FluentWorklist on two identical copies of an arbitrary valid world (shared symbols: volumes, limits, worklist max_volume), "
             "auto_split on/off; k<=2 (aspirate/dispense) / k=1 and k=2 (transfer, 2 candidates); plate 2x2 / trough 3x2; wash 1/'flush'/'reuse'; plus "
             "BaseWorklist refusing aspirate/dispense/transfer/distribute and comment/wash/flush/commit emitting identical records",
    "thorough": "k=2 transfers with 4 candidates and all partition modes, <=4 split steps, plates 3x2/8x2, trough 8x1",
}
OUTSIDE = "sequences of more than one operation (covered inductively: arbitrary pre-state, both copies start equal); EVO-only script commands (C13)"
ASSUMPTIONS = ["both devices start from equal states; masking: position field of A/D records whose rack is a trough, destination range and exclusions of R records whose destination is a trough"]


def shards(tier):
    out = []
    geos = [("p2x2", "p2x2"), ("p2x2", "t3x2"), ("t3x2", "p2x2"), ("t3x2", "t3x2")] + ([("p3x2", "p8x2"), ("t8x1", "p8x2")] if tier == "thorough" else [])
    out.append(dict(op="transfer", sgeo="p2x2", dgeo="t3x2", k=2, steps=1, partition_by="auto", washes=[1], ncand=2, comp=False, wl_max=common.BIG * 2, bcast=["src:scalar", "dst:list1", "vol:scalar", "src:list1+vol:list1"]))
    out.append(dict(op="transfer", sgeo="lt3x2", dgeo="p2x2", k=2, steps=1, partition_by="auto", washes=[1], ncand=2, comp=False, wl_max=common.BIG * 2))
    out.append(dict(op="aspirate", sgeo="lt3x2", dgeo="p2x2", k=2, steps=1, comp=False))
    out.append(dict(op="transfer", sgeo="p2x2", dgeo="p2x2", k=4, steps=1, partition_by="auto", washes=[1], shape2d=True, comp=False, wl_max=common.BIG * 2))
    # a trough and a plate of identical shape in one worklist
    for sg, dg in [("t2x2", "p2x2"), ("p2x2", "t2x2")]:
        out.append(dict(op="transfer", sgeo=sg, dgeo=dg, k=2, steps=1, partition_by="auto", washes=[1], ncand=2, comp=False, wl_max=common.BIG * 2))
    out.append(dict(op="distribute", sgeo="t2x2", dgeo="p2x2", k=1, steps=1, comp=False))
    # distribute into a trough, several virtual rows of one column and repeated wells included
    out.append(dict(op="distribute", sgeo="t3x2", dgeo="t3x2", k=1, steps=1, comp=True, dsels=[[0, 1], [0, 1, 3], [0, 0], [2, 5]]))
    for sg, dg in geos:
        for op in ("aspirate", "dispense"):
            out.append(dict(op=op, sgeo=sg, dgeo=dg, k=2, steps=1, comp=True))
        if sg.startswith("t"):
            out.append(dict(op="distribute", sgeo=sg, dgeo=dg, k=1, steps=1, comp=True))
        for pb in ("auto", "source", "destination"):
            for auto in (True, False):
                out.append(dict(op="transfer", sgeo=sg, dgeo=dg, k=1, steps=3 if tier == "quick" else 4, partition_by=pb, auto_split=auto, comp=True,
                                washes=[1, "reuse"] if tier == "quick" else [1, "flush", "reuse"], label="op"))
        for pb in (("auto",) if tier == "quick" else ("auto", "source", "destination")):
            out.append(dict(op="transfer", sgeo=sg, dgeo=dg, k=2, steps=2, partition_by=pb, washes=[1], ncand=2 if tier == "quick" else 4, comp=False))
    out.append(dict(op="transfer", sgeo="p2x2", dgeo="p2x2", same=True, k=2, steps=2, partition_by="auto", washes=[1], ncand=2, comp=(tier == "thorough")))
    out.append(dict(op="transfer", sgeo="p2x2", dgeo="p2x2", same=True, k=1, steps=2, partition_by="auto", washes=[1], comp=True))
    # a well that is first a destination and then a source within one call (chained), with composition tracking
    out.append(dict(op="transfer", sgeo="p3x2", dgeo="p3x2", same=True, k=2, steps=1, partition_by="auto", washes=[1], cands=[[0, 1], [1, 2]], comp=True, wl_max=common.BIG * 2))
    out.append(dict(op="base", sgeo="t3x2", dgeo="p2x2", k=1, steps=1))
    out.append(dict(op="misc", sgeo="p2x2", dgeo="p2x2", k=1, steps=1))
    return out


def weight(p):
    return p["k"] ** 3 * p["steps"]


def engine_opts(p, tier):
    return dict(mode="real", int_lo=1, int_hi=max(p["steps"], 5) if p["op"] == "misc" else p["steps"])


def witnesses(tier):
    return {"both-ok", "both-exc:VolumeUnderflowError", "both-exc:VolumeOverflowError", "both-exc:InvalidOperationError", "masked-trough-field",
            "base-refused", "misc"}


def _run(ctx, p, dev, memo):
    q = dict(p, dev=dev, uniq_dev="none")   # exactly the same destination wells on both devices (no device-specific de-duplication)
    W = wlops.build(ctx, q)
    try:
        wlops.run(ctx, W, memo)
        W.outcome = ("ok", None)
    except Exception as ex:  # noqa: BLE001
        W.outcome = ("exc", ex)
    return W


def scenario(ctx, p):
    ns = common.rt()
    if p["op"] == "base":
        sub = ctx.choose("baseop", ["aspirate", "dispense", "transfer", "distribute"])
        q = dict(p, dev="base", op=sub)
        W = wlops.build(ctx, q)
        ctx.ctx.update(W=W, sub=sub)
        wlops.run(ctx, W)
        return W
    if p["op"] == "misc":
        scheme = ctx.int("scheme", -1, 6)
        outs = []
        for dev in ("evo", "fluent"):
            wl = common.make_worklist(ctx, dev)
            try:
                wl.comment("first line\n second ")
                wl.wash(scheme)
                wl.flush()
                wl.commit()
                wl.set_diti(2)
                wl.decontaminate()
                outs.append(("ok", list(wl)))
            except Exception as ex:  # noqa: BLE001
                outs.append((type(ex).__name__, list(wl)))
        ctx.ctx["outs"] = outs
        return outs
    memo = {}
    We = _run(ctx, p, "evo", memo)
    Wf = _run(ctx, p, "fluent", memo)
    ctx.ctx.update(We=We, Wf=Wf)
    return We, Wf


def mask(rec, W):
    f = rec.split(";")
    hit = False
    if f[0] in ("A", "D") and f[1] in W.geo and W.geo[f[1]].vrows is not None:
        f[4] = "#"
        hit = True
    if f[0] == "R" and f[6] in W.geo and W.geo[f[6]].vrows is not None:
        f[9] = f[10] = "#"
        f = f[:16]
        hit = True
    return ";".join(f), hit


import re

_TOK = re.compile("(\u27e6\\d+\u27e7|\ue000[^\ue001]*\ue001)")


def same_text(ctx, a, b):
    """record equality: identical literal text, embedded symbolic tokens compared by value"""
    pa, pb = _TOK.split(a), _TOK.split(b)
    if len(pa) != len(pb):
        return False
    conds = []
    for x, y in zip(pa, pb):
        if x == y:
            continue
        if ctx.symbolic and x in ctx.tokens and y in ctx.tokens:
            vx, vy = ctx.tokens[x][0], ctx.tokens[y][0]
            if isinstance(vx, str) or isinstance(vy, str):
                if vx is not vy:
                    return False
                continue
            conds.append(ctx.eq(vx, vy))
        else:
            return False
    return ctx.all_of(conds)


def judge(ctx, p, outcome):
    kind, val = outcome
    ns = common.rt()
    if p["op"] == "base":
        if kind not in ("ok", "exc"):
            return
        W = ctx.ctx["W"]
        recs = [r for r in W.wl if r[0] in "ADR"]
        if recs:
            ctx.violate(f"C16: BaseWorklist emitted device-specific records {recs}")
        if kind == "exc" and isinstance(val, (TypeError, ns.CompatibilityError)):
            ctx.reach("base-refused")
        elif kind == "ok":
            # only acceptable when nothing needed a well number (all volumes zero)
            ctx.prove(ctx.all_of([ctx.eq(v, 0) for _, _, _, v in W.named]), "C16: BaseWorklist accepted an operation that needs device-specific numbering")
        return
    if p["op"] == "misc":
        if kind != "ok":
            return
        (oe, re_), (of, rf) = ctx.ctx["outs"]
        ctx.reach("misc")
        if oe != of or len(re_) != len(rf):
            ctx.violate(f"C16: device-independent records differ: {oe} {re_} vs {of} {rf}")
            return
        for a, b in zip(re_, rf):
            r = same_text(ctx, a, b)
            if r is False:
                ctx.violate(f"C16: device-independent records differ: {a!r} vs {b!r}")
            elif r is not True:
                ctx.prove(r, "C16: device-independent records differ in a numeric field")
        return
    if kind != "ok":
        return
    We, Wf = ctx.ctx["We"], ctx.ctx["Wf"]
    (ke, ee), (kf, ef) = We.outcome, Wf.outcome
    te, tf = type(ee).__name__, type(ef).__name__
    if ke != kf:
        ctx.violate(f"C16: the operation is accepted on one device and rejected on the other (evo: {ke} {te}, fluent: {kf} {tf})")
        return
    if ke == "exc":
        important = (ns.VolumeViolationException, ns.InvalidOperationError)
        if isinstance(ee, important) or isinstance(ef, important):
            if type(ee) is not type(ef):
                ctx.violate(f"C16: different rejection on the two devices: {te} vs {tf}")
                return
            ctx.reach(f"both-exc:{te}")
    else:
        ctx.reach("both-ok")
    # ---- labware state, composition, history (one obligation per labware and aspect)
    for name in We.labs:
        le, lf = We.labs[name], Wf.labs[name]
        wells = common.real_wells(le)
        ctx.prove(ctx.all_of([ctx.eq(le._volumes[w], lf._volumes[w]) for w in wells]), f"C16: volumes of {name} differ between the devices")
        if ke == "ok" or type(ee) is type(ef):   # also after the same rejection: the labware are left identical
            ce, cf = le.composition or {}, lf.composition or {}
            if set(ce) != set(cf):
                ctx.violate(f"C16: composition components of {name} differ: {sorted(ce)} vs {sorted(cf)}")
            else:
                ctx.prove(ctx.all_of([ctx.eq(ce[k_][w], cf[k_][w]) for k_ in ce for w in wells]), f"C16: composition of {name} differs between the devices")
            if le._labels != lf._labels:
                ctx.violate(f"C16: history labels of {name} differ: {le._labels} vs {lf._labels}")
            else:
                ctx.prove(ctx.all_of([ctx.eq(he[w], hf[w]) for he, hf in zip(le._history, lf._history) for w in wells]), f"C16: history of {name} differs between the devices")
    # ---- records
    re_, rf = list(We.wl), list(Wf.wl)
    if len(re_) != len(rf):
        ctx.violate(f"C16: different number of records: evo {len(re_)} vs fluent {len(rf)}")
        return
    for a, b in zip(re_, rf):
        (ma, ha), (mb, hb) = mask(a, We), mask(b, Wf)
        if ha:
            ctx.reach("masked-trough-field")
        r = same_text(ctx, ma, mb)
        if r is False:
            ctx.violate(f"C16: records differ beyond trough position fields: {a!r} vs {b!r}")
        elif r is not True:
            ctx.prove(r, "C16: record volumes differ between the devices")
        # a record that does not address a trough must be identical including its position
        if not ha and same_text(ctx, a, b) is False:
            ctx.violate(f"C16: non-trough records differ: {a!r} vs {b!r}")


def describe(ctx, p, outcome):
    c = ctx.ctx
    if "We" not in c:
        return ""
    We, Wf = c["We"], c["Wf"]
    return (f"  op={p['op']} cfg={getattr(We, 'cfg', None)} wl_max={We.wl_max}\n  pre={ {k: float(v) for k, v in We.pre.items()} }\n"
            f"  evo: {We.outcome[0]} {type(We.outcome[1]).__name__} records={list(We.wl)} post={ {n: l.volumes.tolist() for n, l in We.labs.items()} }\n"
            f"  fluent: {Wf.outcome[0]} {type(Wf.outcome[1]).__name__} records={list(Wf.wl)} post={ {n: l.volumes.tolist() for n, l in Wf.labs.items()} }")
