"""Shared world builder for the worklist-level harnesses (C01, C03, C07, C11, C16, ...).

Runs identically on the symbolic engine and on the concrete replay context (real numpy)."""
import itertools

from oracles import gwl

BIG = 1_000_000   # every symbolic volume / limit is bounded by 1e6 uL (the record format itself stops at 7158278 uL)

GEO = {
    "p1x1": ("plate", 1, 1), "p2x2": ("plate", 2, 2), "p2x3": ("plate", 2, 3), "p3x2": ("plate", 3, 2), "p8x2": ("plate", 8, 2),
    "p4x2": ("plate", 4, 2), "p3x12": ("plate", 3, 12),
    "lt3x2": ("ltrough", 3, 2), "t1x1": ("trough", 1, 1), "t2x2": ("trough", 2, 2), "t3x2": ("trough", 3, 2), "t8x1": ("trough", 8, 1), "t4x2": ("trough", 4, 2),
}


def rt():
    import robotools
    from robotools.evotools.worklist import EvoWorklist
    from robotools.fluenttools.worklist import FluentWorklist
    from robotools.liquidhandling.labware import Labware, Trough
    from robotools.worklists.base import BaseWorklist

    class NS:
        pass

    ns = NS()
    ns.robotools, ns.EvoWorklist, ns.FluentWorklist, ns.Labware, ns.Trough, ns.BaseWorklist = robotools, EvoWorklist, FluentWorklist, Labware, Trough, BaseWorklist
    from robotools.liquidhandling.exceptions import VolumeOverflowError, VolumeUnderflowError, VolumeViolationException
    from robotools.worklists.exceptions import CompatibilityError, InvalidOperationError

    ns.VolumeOverflowError, ns.VolumeUnderflowError, ns.VolumeViolationException = VolumeOverflowError, VolumeUnderflowError, VolumeViolationException
    ns.InvalidOperationError, ns.CompatibilityError = InvalidOperationError, CompatibilityError
    return ns


def real_wells(lab):
    R, C = (1, lab.n_columns) if lab.virtual_rows is not None else (lab.n_rows, lab.n_columns)
    return [(r, c) for c in range(C) for r in range(R)]


def all_ids(lab):
    """all well ids (incl. virtual rows) in column-major order"""
    return [f"{row}{col:02d}" for col in lab.column_ids for row in lab.row_ids]


def make_labware(ctx, name, geo, *, filled=True, sym_limits=True, sym_volumes=True, vol_hi=None, init_array=None):
    """A labware in an arbitrary valid state: per-well volumes 0 <= v <= max_volume, 0 <= min_volume < max_volume.
    `filled`: constructed with every real well initially filled (one 100 % component per well / trough column).
    `init_array`: construct through the public constructor from this (caller-owned) float array instead of poking the state."""
    ns = rt()
    kind, R, C = GEO[geo] if isinstance(geo, str) else geo
    init = 1.0 if filled else 0.0
    if init_array is not None:
        assert kind == "plate"
        lab = ns.Labware(name, R, C, min_volume=0, max_volume=BIG, initial_volumes=init_array)
        g = gwl.Geometry(name, R, C)
        vmin = ctx.real(f"{name}_min", 0)
        vmax = ctx.real(f"{name}_max", None, BIG)
        ctx.assume(vmax > vmin)
        lab.min_volume, lab.max_volume = vmin, vmax
        pre = {}
        for (r, c) in real_wells(lab):
            ctx.assume(init_array[r, c] <= vmax)
            pre[(name, (r, c))] = init_array[r, c] + 0
        return lab, g, pre
    if kind == "plate":
        lab = ns.Labware(name, R, C, min_volume=0, max_volume=1000, initial_volumes=init)
        g = gwl.Geometry(name, R, C)
    elif kind == "ltrough":
        # a trough declared through the generic constructor (supported; emits a UserWarning)
        import warnings
        with warnings.catch_warnings():
            warnings.simplefilter("ignore")
            lab = ns.Labware(name, 1, C, min_volume=0, max_volume=1000, initial_volumes=init, virtual_rows=R)
        g = gwl.Geometry(name, 1, C, vrows=R)
    else:
        lab = ns.Trough(name, R, C, min_volume=0, max_volume=1000, initial_volumes=init)
        g = gwl.Geometry(name, 1, C, vrows=R)
    if sym_limits:
        vmin = ctx.real(f"{name}_min", 0)
        vmax = ctx.real(f"{name}_max", None, BIG)
        ctx.assume(vmax > vmin)
        lab.min_volume, lab.max_volume = vmin, vmax
    pre = {}
    if sym_volumes:
        for (r, c) in real_wells(lab):
            v = ctx.real(f"{name}_v{r}_{c}", 0, vol_hi)
            ctx.assume(v <= lab.max_volume)
            lab._volumes[r, c] = v
            pre[(name, (r, c))] = v
        lab._history = [lab.volumes]
    else:
        for (r, c) in real_wells(lab):
            pre[(name, (r, c))] = lab._volumes[r, c]
    return lab, g, pre


def initial_compositions(lab):
    """{(name,(r,c)): {component: fraction}} as the twin reports it (read before the operation)"""
    out = {}
    for (r, c) in real_wells(lab):
        d = {}
        for k, arr in (lab.composition or {}).items():
            f = arr[r, c]
            d[k] = f
        out[(lab.name, (r, c))] = d
    return out


def make_worklist(ctx, dev, max_volume=None, **kw):
    ns = rt()
    import warnings
    # "legacy": the deprecated robotools.Worklist class (an EvoWorklist that warns on construction), still exported
    cls = {"evo": ns.EvoWorklist, "fluent": ns.FluentWorklist, "base": ns.BaseWorklist, "legacy": getattr(ns.robotools, "Worklist", ns.EvoWorklist)}[dev]
    with warnings.catch_warnings():
        warnings.simplefilter("ignore")
        if max_volume is None:
            return cls(**kw)
        return cls(max_volume=max_volume, **kw)


def product_dicts(**axes):
    keys = list(axes)
    for combo in itertools.product(*[axes[k] for k in keys]):
        yield dict(zip(keys, combo))
