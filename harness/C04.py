"""C04 - exact volume bookkeeping per real well, including trough aliasing."""
from harness import common, lwops, wlops

ID = "C04"
BOUNDS = {
    "quick": "one Labware.add / Labware.remove / worklist aspirate / dispense from an arbitrary valid state (symbolic per-well volumes and limits); "
             "argument shapes: scalar id, lists of k<=3 ids chosen from 4 candidates (repeats, trough virtual-row aliases) with list / scalar / too-long "
             "volume arguments, 2-D well slices up to 2x2 with 2-D / scalar / flat volume arguments; additions without, with empty and with named compositions; geometries plate 2x2, 2x3 and trough 3 virtual rows x 2 columns; distribute to destination wells that share a position (a well listed twice, virtual rows of one trough column), both devices",
    "thorough": "as quick with k<=4, 2-D slices up to 2x3, plus plates 3x2, 8x2, 1x1 and troughs 1x1, 8x1",
}
OUTSIDE = "longer lists, larger slices, other geometries; float rounding of sums (Real arithmetic); histories are covered inductively (arbitrary pre-state)"
ASSUMPTIONS = ["inductive step from an arbitrary state with 0<=v<=max_volume, 0<=min_volume<max_volume",
               "reference semantics: harness/lwops.py (column-major flattening of nested Python lists, sequential application)"]


def shards(tier):
    geos = ["p2x2", "p2x3", "t3x2"] + (["p3x2", "p8x2", "p1x1", "t1x1", "t8x1"] if tier == "thorough" else [])
    out = []
    for geo in geos:
        for op in ("add", "remove", "dispense", "aspirate"):
            for shapes in (["scalar-id", "list-scalar", "list-short"], ["list"], ["2d", "2d-scalar", "2d-flatvols", "2d-col-flatvols"]):
                if op in ("aspirate", "dispense") and shapes[0] == "scalar-id":
                    shapes = ["scalar-id", "list-scalar"]
                out.append(dict(geo=geo, op=op, shapes=shapes, k=(3 if tier == "quick" else 4) if shapes == ["list"] else 2,
                                c2d=2 if tier == "quick" else 3))
    # additions and removals made by a transfer (k triples, repeated wells, broadcasting of a single source / destination)
    for dev in ("evo", "fluent"):
        for sg, dg in [("p2x2", "t3x2"), ("t3x2", "p2x2"), ("p2x2", "p2x2")]:
            for pb in ("source", "destination"):
                out.append(dict(op="transfer", dev=dev, sgeo=sg, dgeo=dg, k=3 if tier == "quick" else 4, steps=1, partition_by=pb, washes=[1], ncand=2, wl_max=common.BIG * 2, geo=sg))
        # a transfer whose volume is split into <= 3 steps: the books still show exactly the requested volume
        out.append(dict(op="transfer", dev=dev, sgeo="p2x2", dgeo="p2x2", k=1, steps=3, partition_by="source", washes=[1], ncand=1, wl_max="sym", geo="p2x2", split=True))
        # removals / additions made by a distribute whose destination wells share a position (a well listed twice; virtual rows of one
        # trough column, which Fluent numbers alike): source and destinations are charged once per listed well
        for dg in ("t3x2", "p2x2"):
            out.append(dict(op="distribute", dev=dev, sgeo="t3x2", dgeo=dg, k=1, steps=1, uniq_dev="none", dsels=[[0, 1], [0, 0], [0, 3], [1]], geo="t3x2"))
    out.append(dict(op="alias", concrete=True, geo="p2x2", shapes=[], k=1))
    return out


def weight(p):
    return p["k"] ** 3


def engine_opts(p, tier):
    if p.get("split"):
        return dict(mode="real", int_lo=1, int_hi=p["steps"])
    return dict(mode="real")


def witnesses(tier):
    return {"ok", "exc:VolumeOverflowError", "exc:VolumeUnderflowError", "exc:other"}


def scenario(ctx, p):
    if p["op"] == "alias":
        # two labware (and the caller) must not share volume state, however the initial volumes were passed
        import numpy
        ns = common.rt()
        kind = ctx.choose("arg", ["float-array", "int-array", "list", "fortran", "scalar"])
        arg = {"float-array": numpy.array([[5.0, 6.0], [7.0, 8.0]]), "int-array": numpy.array([[5, 6], [7, 8]]), "list": [[5.0, 6.0], [7.0, 8.0]],
               "fortran": numpy.asfortranarray([[5.0, 6.0], [7.0, 8.0]]), "scalar": 5.0}[kind]
        A = ns.Labware("A", 2, 2, min_volume=0, max_volume=100, initial_volumes=arg)
        B = ns.Labware("B", 2, 2, min_volume=0, max_volume=100, initial_volumes=arg)
        b0 = B.volumes.tolist()
        wl = ns.EvoWorklist()
        wl.transfer(A, ["A01", "B02"], B, ["A01", "A02"], [1.0, 2.0])
        a_want = [[4.0, 6.0], [7.0, 6.0]] if kind != "scalar" else [[4.0, 5.0], [5.0, 3.0]]
        b_want = [[b0[0][0] + 1.0, b0[0][1] + 2.0], b0[1]]
        ctx.ctx["alias"] = dict(kind=kind, A=A.volumes.tolist(), B=B.volumes.tolist(), a_want=a_want, b_want=b_want,
                                arg=(arg.tolist() if hasattr(arg, "tolist") else arg))
        return A
    if p["op"] in ("transfer", "distribute"):
        W = wlops.build(ctx, p)
        ctx.ctx["W"] = W
        wlops.run(ctx, W)
        return W
    lab, g, pre = common.make_labware(ctx, "L", p["geo"], filled=False)
    wells, vols, pairs, shape = lwops.build_args(ctx, lab, p)
    ctx.ctx.update(lab=lab, pre={k[1]: v for k, v in pre.items()}, pairs=pairs, shape=shape, args=(wells, vols))
    op = p["op"]
    kw = {}
    if op in ("add", "dispense") and pairs is not None:
        # the composition argument must not influence the volume bookkeeping: none / empty dicts / a named liquid
        comp = ctx.choose("compositions", ["none", "empty", "named"] if "list-scalar" in p["shapes"] else ["none"])
        if comp != "none":
            kw["compositions"] = [({} if comp == "empty" else {"water": 1.0}) for _ in pairs]
    if op in ("add", "remove"):
        getattr(lab, op)(wells, vols, **kw)
    else:
        dev = ctx.choose("dev", ["evo", "fluent"])
        wl = common.make_worklist(ctx, dev, 1e9)
        ctx.ctx["wl"] = wl
        getattr(wl, op)(lab, wells, vols, **kw)
    return lab


def judge(ctx, p, outcome):
    kind, val = outcome
    if kind not in ("ok", "exc"):
        return
    c = ctx.ctx
    ns = common.rt()
    if p["op"] == "alias":
        if kind != "ok":
            ctx.violate(f"C04: {type(val).__name__}: {val}")
            return
        ctx.reach("ok")
        a = c["alias"]
        if a["A"] != a["a_want"] or a["B"] != a["b_want"]:
            ctx.violate("C04: a transfer between two labware built from the same initial_volumes argument does not book initial - removed / initial + added", info=repr(a))
        if a["kind"] != "scalar" and a["arg"] != [[5.0, 6.0], [7.0, 8.0]] and a["arg"] != [[5, 6], [7, 8]]:
            ctx.violate("C04: operations on a labware changed the caller's initial_volumes argument", info=repr(a))
        return
    if p["op"] in ("transfer", "distribute"):
        if kind != "ok":
            ctx.reach("exc:" + type(val).__name__ if isinstance(val, ns.VolumeViolationException) else "exc:other")
            return
        ctx.reach("ok")
        W = c["W"]
        want = dict(W.pre)
        for rack, wid, sign, v in W.named:
            key = (rack, W.geo[rack].real_of(wid))
            want[key] = want[key] + sign * v
        ctx.prove(ctx.all_of([ctx.eq(W.labs[r]._volumes[w], x) for (r, w), x in want.items()]),
                  f"C04: after a {p['op']} the volumes are not initial + added - removed per real well (triples paired element-wise)")
        return
    lab = c["lab"]
    if c["pairs"] is None:
        # incompatible lengths must be rejected and leave the state unchanged
        if kind == "ok":
            ctx.violate("C04: volumes of a different length than the wells were accepted")
        else:
            ctx.reach("exc:other")
            ctx.prove(ctx.all_of([ctx.eq(lab._volumes[w], v) for w, v in c["pre"].items()]), "C04: rejected call changed the state")
        return
    sign = 1 if p["op"] in ("add", "dispense") else -1
    lwops.check_sequential(ctx, lab, common.GEO[p["geo"]][0], c["pre"], c["pairs"], sign, outcome, ns, "C04")


def describe(ctx, p, outcome):
    c = ctx.ctx
    if p["op"] in ("transfer", "distribute"):
        from harness import C01
        return C01.describe(ctx, p, outcome)
    lab = c.get("lab")
    if lab is None:
        return ""
    return (f"  {p['op']} on {p['geo']} shape={c['shape']} pairs={[(w, float(v)) for w, v in (c['pairs'] or [])]}\n"
            f"  pre={ {k: float(v) for k, v in c['pre'].items()} } min={lab.min_volume} max={lab.max_volume}\n  post={lab.volumes.tolist()}")
