"""C19 - get_trough_wells cycles through the given wells and returns exactly n."""
from harness import common

ID = "C19"
BOUNDS = {
    "quick": "n an unbounded symbolic int (all negatives are one path class; concretised in 0..3*len+2, larger n is one aborted class) plus the non-integers "
             "{2.0, '2', None, True}; well collections: lists of 1, 3, 4 opaque ids, 1-D arrays, 2-D arrays 2x2 and 2x3 (stand-in arrays), an empty list, empty 2-D arrays (4x0, 0x3), "
             "a trough's `wells` attribute and a column slice; plus, by concrete execution on the real numpy, n in {255..257, 300, 511..513, 1000, 32767, 32768, 65535..65537, 70000} for five of the collections",
    "thorough": "lists up to 8, 2-D arrays up to 3x4 and 8x1",
}
OUTSIDE = "n above 3*len+2 for the listed collections (the function is uniform in n: repeat + truncate)"
ASSUMPTIONS = ["the function only moves the ids, so object identity / equality of the returned ids with the column-major input is the oracle"]


def colls(tier):
    out = [("list", 1, 1), ("list", 3, 1), ("list", 4, 1), ("replist", 3, 1), ("arr1", 3, 1), ("arr2", 2, 2), ("arr2", 2, 3), ("list", 0, 1), ("empty2d", 4, 0), ("empty2d", 0, 3), ("trough", 4, 2), ("troughcol", 4, 2)]
    if tier == "thorough":
        out += [("list", 8, 1), ("arr2", 3, 4), ("arr2", 8, 1)]
    return out


BIG_N = [255, 256, 257, 300, 511, 512, 513, 1000, 32767, 32768, 65535, 65536, 65537, 70000]


def shards(tier):
    out = [dict(coll=list(cl), nkind=nk) for cl in colls(tier) for nk in ("sym", "other")]
    # large n around the widths of fixed-size integers (concrete execution on the real numpy; the symbolic shards concretise n <= 3*len+2)
    for cl in [("list", 3, 1), ("list", 1, 1), ("arr2", 2, 3), ("troughcol", 4, 2), ("trough", 4, 2)] + ([("list", 7, 1), ("arr2", 3, 4)] if tier == "thorough" else []):
        out.append(dict(coll=list(cl), nkind="big", concrete=True))
    return out


def engine_opts(p, tier):
    kind, a, b = p["coll"]
    n = a * b
    return dict(mode="real", int_lo=0, int_hi=3 * max(n, 1) + 2)


def witnesses(tier):
    return {"ok", "ok:wrapped", "ok:empty-result", "rejected:negative", "rejected:nonint", "rejected:nowells"}


def scenario(ctx, p):
    ns = common.rt()
    from robotools.utils import get_trough_wells
    np = ctx.np
    kind, a, b = p["coll"]
    if kind == "list":
        wells = [f"W{i:02d}" for i in range(a)]
        colmajor = list(wells)
    elif kind == "replist":
        wells = ["W00", "W00", "W01"][:a]   # a well listed twice is offered twice per cycle
        colmajor = list(wells)
    elif kind == "arr1":
        colmajor = [f"W{i:02d}" for i in range(a)]
        wells = np.array(colmajor)
    elif kind == "empty2d":
        # an empty collection given as a 2-D array: a column slice past the last column (a x 0) or no rows (0 x b)
        wells = np.array([[f"R{r}C{c}" for c in range(max(b, 1))] for r in range(max(a, 1))])[0:a, 0:b]
        colmajor = []
    elif kind == "arr2":
        grid = [[f"R{r}C{c}" for c in range(b)] for r in range(a)]
        wells = np.array(grid)
        colmajor = [grid[r][c] for c in range(b) for r in range(a)]
    else:
        t = ns.Trough("T", a, b, min_volume=0, max_volume=100)
        if kind == "trough":
            wells = t.wells
            colmajor = [f"{'ABCDEFGH'[r]}{c + 1:02d}" for c in range(b) for r in range(a)]
        else:
            wells = t.wells[:, 1]
            colmajor = [f"{'ABCDEFGH'[r]}02" for r in range(a)]
    if p["nkind"] == "sym":
        n = ctx.int("n")
    elif p["nkind"] == "big":
        n = ctx.choose("n", BIG_N)
    else:
        n = ctx.choose("n", [2.0, "2", None, True])
    ctx.ctx.update(n=n, colmajor=colmajor)
    if p["nkind"] == "sym" and kind in ("list", "arr2", "trough"):
        # history: an earlier identical request whose result the caller has modified since (results must be independent objects)
        earlier = ctx.choose("earlier", [None, "truncated", "overwritten"])
        ctx.ctx["earlier"] = earlier
        if earlier is not None:
            try:
                first = get_trough_wells(n, wells)
            except Exception:  # noqa: BLE001
                first = None
            if isinstance(first, list) and len(first) > 0:
                if earlier == "truncated":
                    del first[len(first) // 2:]
                else:
                    first[0] = "ZZ9"
    return get_trough_wells(n, wells)


def judge(ctx, p, outcome):
    kind, val = outcome
    if kind not in ("ok", "exc"):
        return
    c = ctx.ctx
    n, cm = c["n"], c["colmajor"]
    if p["nkind"] == "big":
        if kind == "exc":
            ctx.violate(f"C19: a valid request was rejected ({type(val).__name__}: {val})")
            return
        res = [str(w) for w in val]
        ctx.reach("ok:wrapped")
        if len(res) != n:
            ctx.violate("C19: the result does not have exactly n elements")
            return
        bad = [i for i, w in enumerate(res) if w != cm[i % len(cm)]]
        if bad:
            ctx.violate("C19: an element is not the (i mod len)-th well in column-major order", info=f"first at index {bad[0]}: {res[bad[0]]!r} instead of {cm[bad[0] % len(cm)]!r}")
        return
    if p["nkind"] != "sym":
        if kind == "ok" and n is not True:
            ctx.violate(f"C19: non-integer n={n!r} accepted")
        elif kind == "exc":
            ctx.reach("rejected:nonint")
        elif n is True:
            if list(val) != cm[:1]:
                ctx.violate("C19: n=True accepted with a wrong result")
        return
    if kind == "exc":
        if len(cm) == 0:
            ctx.reach("rejected:nowells")
            # an empty collection may be rejected for any n (negative n may be reported first)
            return
        ctx.reach("rejected:negative")
        ctx.prove(n < 0, f"C19: a valid request was rejected ({type(val).__name__}: {val})")
        return
    if len(cm) == 0:
        ctx.violate("C19: an empty well collection was accepted")
        return
    res = list(val)
    k = len(res)
    ctx.prove(ctx.eq(n, k), "C19: the result does not have exactly n elements")
    ctx.reach("ok" if k else "ok:empty-result")
    if k > len(cm):
        ctx.reach("ok:wrapped")
    for i, w in enumerate(res):
        if str(w) != cm[i % len(cm)]:
            ctx.violate(f"C19: element {i} is {str(w)!r} instead of the (i mod len)-th well {cm[i % len(cm)]!r} in column-major order")
            return


def describe(ctx, p, outcome):
    c = ctx.ctx
    return f"  get_trough_wells({c.get('n')!r}, {p['coll']}) [earlier identical call, result then {c.get('earlier')}] -> {outcome[0]} {outcome[1]!r}"
