"""C08 - well numbering is column-major, 1-based, and device-specific for troughs."""
from harness import common

ID = "C08"
ROWS = "ABCDEFGHIJKLMNOPQRSTUVWXYZ"
BOUNDS = {
    "quick": "(a) evotools/fluenttools.get_well_position on real Labware/Trough objects with the well id a symbolic character vector of every length 0..4 "
             "(characters 32..255), geometries plate 3x12, 9x2, 26x1, 1x1 and trough 9 virtual rows x 2 columns, 1x1; (b) aspirate/dispense (and transfer, id length 3) with the symbolic id "
             "(labware index wrapped in a symbolic-aware mapping) on plate 3x2 / trough 3x2 (and plate 2x11 for ids of length 4), both devices; (c) structural agreement of wells / indices / positions / "
             "make_well_array / make_well_index_dict and both numbering helpers for EVERY well of every plate rows 1..26 x columns {1,2,9,10,12,24,99,120} and every "
             "trough virtual_rows {1,2,8,26} x columns {1,2,12,24} (concrete execution, not solver-decided)",
    "thorough": "(a) id length 0..5, additional geometries plate 16x24, 8x12, trough 26x24, 8x12; (b) plate 8x12",
}
OUTSIDE = "ids longer than the bound; geometries not listed; position of non-canonical ids that the helper's regular expression accepts (e.g. 'C9') is checked against the formula but not required to be rejected"
ASSUMPTIONS = ["regex model symex/regexmodel.py built from the pattern string found in the imported module (differentially tested against `re`)",
               "part (c) is an exhaustive concrete enumeration over the listed geometries, reported separately from the solver-decided parts"]


def shards(tier):
    out = []
    geos = [("plate", 3, 12), ("plate", 9, 2), ("plate", 26, 1), ("plate", 1, 1), ("trough", 9, 2), ("trough", 1, 1), ("ltrough", 3, 2)]
    if tier == "thorough":
        geos += [("plate", 16, 24), ("plate", 8, 12), ("trough", 26, 24), ("trough", 8, 12)]
    for g in geos:
        for dev in ("evo", "fluent"):
            for L in range(0, 5 if tier == "quick" else 6):
                out.append(dict(part="helper", geo=g, dev=dev, L=L))
    for g in [("plate", 3, 2), ("trough", 3, 2), ("ltrough", 3, 2)] + ([("plate", 8, 12)] if tier == "thorough" else []):
        for dev in ("evo", "fluent"):
            for op in ("aspirate", "dispense"):
                for L in (2, 3, 4):
                    out.append(dict(part="op", geo=g, dev=dev, op=op, L=L))
    # the same well id given to transfer() as source / destination
    for g in [("trough", 3, 2), ("ltrough", 3, 2), ("plate", 3, 2)]:
        for dev in ("evo", "fluent"):
            for op in ("transfer-src", "transfer-dst"):
                out.append(dict(part="op", geo=g, dev=dev, op=op, L=3))
    # ids one character longer than a canonical id on a plate with two-digit columns ('A010' must not be taken for 'A01' or 'A10')
    for dev in ("evo", "fluent"):
        for op in ("aspirate", "dispense"):
            out.append(dict(part="op", geo=("plate", 2, 11), dev=dev, op=op, L=4))
    for cols in (1, 2, 9, 10, 12, 24, 99, 120):
        out.append(dict(part="tables", kind="plate", cols=cols, concrete=True))
    for cols in (1, 2, 12, 24):
        out.append(dict(part="tables", kind="trough", cols=cols, concrete=True))
    out.append(dict(part="tables", kind="ltrough", cols=2, concrete=True))
    out.append(dict(part="distribute", concrete=True))
    return out


def weight(p):
    return p.get("L", 1) * (p["geo"][1] * p["geo"][2] if "geo" in p else 50)


def engine_opts(p, tier):
    return dict(mode="real", int_lo=0, int_hi=100)


def witnesses(tier):
    return {"helper:ok", "helper:rejected", "op:ok", "op:rejected", "tables", "distribute"}


_patched = False


def setup():
    """shadow the compiled regex of the two numbering modules by its symbolic model (module globals only)"""
    global _patched
    if _patched:
        return
    from symex import regexmodel
    from robotools.evotools import utils as eu
    from robotools.fluenttools import utils as fu
    for m in (eu, fu):
        if not isinstance(m._WELLID_MATCHER, regexmodel.SymPattern):
            m._WELLID_MATCHER = regexmodel.SymPattern(m._WELLID_MATCHER)
    _patched = True


def make(ns, g):
    kind, R, C = g
    if kind == "plate":
        return ns.Labware("P", R, C, min_volume=0, max_volume=1e6, initial_volumes=500)
    if kind == "ltrough":
        # a trough declared through the generic constructor (supported, emits a UserWarning)
        import warnings
        with warnings.catch_warnings():
            warnings.simplefilter("ignore")
            return ns.Labware("P", 1, C, min_volume=0, max_volume=1e6, initial_volumes=500, virtual_rows=R)
    return ns.Trough("P", R, C, min_volume=0, max_volume=1e6, initial_volumes=500)


def formula(kind, R, C, dev, r, c):
    """specification: r = (virtual) row index, c = column index, both 0-based"""
    if kind in ("trough", "ltrough"):
        return 1 + c if dev == "fluent" else 1 + c * R + r
    return 1 + c * R + r


def scenario(ctx, p):
    ns = common.rt()
    c = ctx.ctx
    part = p["part"]
    if part == "tables":
        return scenario_tables(ctx, p, ns)
    if part == "distribute":
        # source range = tip positions of the named trough column (1 + V*col .. V*col + V on both devices, DESIGN L1);
        # destination range / exclusions = device-specific positions of the named wells
        dev = ctx.choose("dev", ["evo", "fluent"])
        V, C = ctx.choose("trough", [(3, 2), (8, 3), (1, 2)])
        col = ctx.choose("col", list(range(C)))
        dkind = ctx.choose("dest", ["plate", "trough"])
        src = ns.Trough("S", V, C, min_volume=0, max_volume=1e6, initial_volumes=1e5)
        dst = ns.Labware("D", 4, 3, min_volume=0, max_volume=1e6) if dkind == "plate" else ns.Trough("D", 4, 3, min_volume=0, max_volume=1e6)
        wells = ["B01", "A03", "D02"] if dkind == "plate" else ["A01", "C03"]
        wl = common.make_worklist(ctx, dev, 1000)
        wl.distribute(src, col, dst, wells, volume=10)
        c.update(dev=dev, V=V, C=C, col=col, dkind=dkind, wells=wells, recs=list(wl))
        # ids that do not exist (a row beyond the virtual rows, lower case, a column beyond the last) given to transfer(): refused, nothing recorded
        bad = []
        plate = ns.Labware("P", 4, 3, min_volume=0, max_volume=1e6, initial_volumes=500)
        for lab, ids in ((src, [f"{ROWS[V]}01", "a01", f"A{C + 1:02d}", "Z01"]), (plate, ["E01", "b02", "A04"])):
            for wid_ in ids:
                for as_source in (True, False):
                    wl2 = common.make_worklist(ctx, dev, 1000)
                    try:
                        if as_source:
                            wl2.transfer(lab, wid_, plate, "A01", 10.0)
                        else:
                            wl2.transfer(plate, "A01", lab, wid_, 10.0)
                        bad.append(f"{dev} transfer {'from' if as_source else 'into'} {lab.name}.{wid_} was accepted: {list(wl2)}")
                    except (KeyError, ValueError):
                        if [r for r in wl2 if r[0] in "ADC"]:
                            bad.append(f"{dev} transfer {'from' if as_source else 'into'} {lab.name}.{wid_} raised but left {list(wl2)}")
        c["bad_transfers"] = bad
        return wl
    g = tuple(p["geo"])
    lab = make(ns, g)
    well = ctx.chars("well", p["L"], 32, 255)
    c.update(lab=lab, well=well, g=g)
    if part == "helper":
        if p["dev"] == "evo":
            from robotools.evotools.utils import get_well_position
        else:
            from robotools.fluenttools.utils import get_well_position
        return get_well_position(lab, well)
    if ctx.symbolic:
        from symex.strings import SymDict
        lab._indices = SymDict(lab._indices)
    wl = common.make_worklist(ctx, p["dev"], 1000)
    c["wl"] = wl
    if p["op"].startswith("transfer"):
        ns = common.rt()
        other = ns.Labware("Other", 2, 2, min_volume=0, max_volume=1000, initial_volumes=500)
        if p["op"] == "transfer-src":
            wl.transfer(lab, well, other, "A01", 10.0)
        else:
            wl.transfer(other, "A01", lab, well, 10.0)
        return wl
    getattr(wl, p["op"])(lab, well, 10.0)
    return wl


def canonical(ctx, well, kind, R, C):
    """condition: the id is a canonical id of the labware; plus (row index, column index) expressions"""
    chars = list(well.chars) if ctx.symbolic else [ord(x) for x in well]
    if len(chars) != 3 or C > 99:
        if len(chars) == 4 and C > 99:
            pass
        return False, None, None
    c0, d1, d2 = chars
    col = (d1 - 48) * 10 + (d2 - 48)
    row = c0 - 65
    if ctx.symbolic:
        import z3
        from symex import core
        cond = core.SBool(ctx, z3.And(c0 >= 65, c0 < 65 + R, d1 >= 48, d1 <= 57, d2 >= 48, d2 <= 57, col >= 1, col <= C))
        return cond, core.SInt(ctx, row), core.SInt(ctx, col - 1)
    cond = 65 <= c0 < 65 + R and 48 <= d1 <= 57 and 48 <= d2 <= 57 and 1 <= col <= C
    return cond, row, col - 1


def judge(ctx, p, outcome):
    kind_, val = outcome
    if kind_ not in ("ok", "exc"):
        return
    part = p["part"]
    c = ctx.ctx
    if part == "tables":
        if kind_ == "exc":
            ctx.violate(f"C08: {type(val).__name__} while building the numbering tables: {val}")
        else:
            ctx.reach("tables")
            for msg in val:
                ctx.violate(msg)
        return
    if part == "distribute":
        if kind_ == "exc":
            ctx.violate(f"C08: distribute raised {type(val).__name__}: {val}")
            return
        ctx.reach("distribute")
        for m in c.get("bad_transfers", [])[:3]:
            ctx.violate("C08: a transfer naming a well id that does not exist was accepted or left records behind", info=m)
        (rec,) = [r for r in c["recs"] if r.startswith("R;")]
        f = rec.split(";")
        V, col, dev = c["V"], c["col"], c["dev"]
        if (int(f[4]), int(f[5])) != (1 + V * col, V * col + V):
            ctx.violate("C08: source range of the R record is not the tip positions of the named trough column", info=dict(record=rec, V=V, col=col))
        pos = sorted(formula("plate" if c["dkind"] == "plate" else "trough", 4, 3, dev, ROWS.index(w[0]), int(w[1:]) - 1) for w in c["wells"])
        excl = [int(x) for x in f[16:]]
        targets = [x for x in range(int(f[9]), int(f[10]) + 1) if x not in excl]
        if targets != sorted(set(pos)):
            ctx.violate("C08: destination range / exclusions of the R record do not select the positions of the named wells", info=dict(record=rec, wells=c["wells"], want=pos))
        return
    lab, well, (kind, R, C) = c["lab"], c["well"], c["g"]
    canon, row, col = canonical(ctx, well, kind, R, C)
    if kind_ == "exc":
        ctx.reach(f"{part}:rejected")
        if part == "op" and list(c["wl"]):
            ctx.violate("C08: an operation naming a non-existent well left records behind", info=repr(list(c["wl"])))
        if not isinstance(val, (ValueError, KeyError)):
            ctx.violate(f"C08: unexpected exception {type(val).__name__}: {val}")
        ctx.prove(ctx.not_(canon), "C08: a well id that exists in the labware was rejected")
        return
    ctx.reach(f"{part}:ok")
    if part == "helper":
        pos = val
        if canon is False:
            return   # a non-canonical id that the helper's regular expression accepts (e.g. 'C9'): not constrained at helper level (DESIGN L4)
        want = formula_expr(kind, R, p["dev"], row, col)
        ctx.prove(ctx.implies(canon, ctx.eq(pos, want)), "C08: position differs from 1 + column*rows + row (device-specific for troughs)")
        return
    # operation level: accepted ids are exactly the canonical ids; the record carries the formula position
    recs = [r for r in c["wl"] if r[0] in "AD" and r.split(";")[1] != "Other"]
    if len(recs) != 1:
        ctx.violate(f"C08: {len(recs)} records for one well")
        return
    ctx.prove(canon, "C08: an operation accepted a well id that does not exist in the labware")
    posf = ctx.int_field(recs[0].split(";")[4])
    if canon is not False:
        ctx.prove(ctx.implies(canon, ctx.eq(posf, formula_expr(kind, R, p["dev"], row, col))), "C08: record position differs from the numbering formula")


def wrap(ctx, x):
    if ctx.symbolic:
        import z3
        from symex import core
        if isinstance(x, z3.ExprRef):
            return core.SInt(ctx, x)
    return x


def formula_expr(kind, R, dev, r, c):
    if kind in ("trough", "ltrough"):
        return 1 + c if dev == "fluent" else 1 + c * R + r
    return 1 + c * R + r


def scenario_tables(ctx, p, ns):
    """concrete, exhaustive over the geometry family of this shard"""
    from robotools import transform
    from robotools.evotools.utils import get_well_position as gpe
    from robotools.fluenttools.utils import get_well_position as gpf
    import warnings
    msgs = []
    C = p["cols"]
    rows = range(1, 27) if p["kind"] == "plate" else (1, 2, 8, 26)
    istrough = p["kind"] in ("trough", "ltrough")
    for R in rows:
        lab = make(ns, (p["kind"], R, C))
        ids = [[f"{ROWS[r]}{c + 1:02d}" for c in range(C)] for r in range(R)]
        if lab.wells.tolist() != ids:
            msgs.append(f"C08: wells array of {p['kind']} {R}x{C} is not the row/column id grid")
            continue
        if p["kind"] == "plate":
            if transform.make_well_array(R, C).tolist() != ids or transform.make_well_index_dict(R, C) != {ids[r][c]: (r, c) for r in range(R) for c in range(C)}:
                msgs.append(f"C08: make_well_array / make_well_index_dict disagree with the id grid for {R}x{C}")
        with warnings.catch_warnings():
            warnings.simplefilter("ignore")
            positions = lab.positions
        seen_e, seen_f = {}, {}
        for r in range(R):
            for c in range(C):
                w = ids[r][c]
                real = (0, c) if istrough else (r, c)
                if tuple(lab.indices[w]) != real:
                    msgs.append(f"C08: indices[{w}] = {lab.indices[w]} instead of {real} ({p['kind']} {R}x{C})")
                fe, ff = formula(p["kind"], R, C, "evo", r, c), formula(p["kind"], R, C, "fluent", r, c)
                if positions[w] != fe or gpe(lab, w) != fe or gpf(lab, w) != ff:
                    msgs.append(f"C08: position of {w} in {p['kind']} {R}x{C}: positions={positions[w]} evo={gpe(lab, w)} fluent={gpf(lab, w)}, formula evo={fe} fluent={ff}")
                seen_e.setdefault(fe, []).append(w)
                seen_f.setdefault(ff, []).append(real)
        if sorted(seen_e) != list(range(1, R * C + 1)) or any(len(v) != 1 for v in seen_e.values()):
            msgs.append(f"C08: EVO numbering of {p['kind']} {R}x{C} is not a bijection onto 1..{R * C}")
        if any(len(set(v)) != 1 for v in seen_f.values()):
            msgs.append(f"C08: Fluent numbering of {p['kind']} {R}x{C} maps two real wells to one position")
        if len(msgs) > 5:
            break
    return msgs[:6]


def describe(ctx, p, outcome):
    c = ctx.ctx
    return f"  {p} well={c.get('well')!r} -> {outcome[0]} {outcome[1] if outcome[0] != 'ok' or p['part'] == 'helper' else list(c.get('wl', []))}"
