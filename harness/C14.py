"""C14 - a DilutionPlan is self-consistent and executable as planned."""
from fractions import Fraction

from harness import common

ID = "C14"
BOUNDS = {
    "quick": "DilutionPlan(xmin, xmax, R, C, stock, mode='linear', vmax, min_transfer) with xmin, xmax, min_transfer symbolic reals (0 < xmin < xmax <= stock, "
             "1 <= min_transfer <= vmax), (R, C) in {(1,2), (1,3), (1,4), (2,2)}, vmax in {6, (6,8,..) per column, (8,2,8,..) with a small middle column}, stock in {1, 2.5}; the integer results of round/ceil "
             "are concretised (0..vmax+2), so every path is one concrete plan and the solver decides the region of (xmin, xmax, min_transfer) that yields it; "
             "each plan is then executed with to_worklist on large labware in five variants (both devices, worklist max_volume 1000 and 4 (splitting), always-mix, destination plate, stock and diluent as two columns of one trough); mode='log' and invalid modes as concrete cases",
    "thorough": "(R, C) up to (2,3) and (1,5), vmax in {6, 10}, worklist max_volume below vmax (splitting), destination plate, mixing parameters",
}
OUTSIDE = "R > 2, C > 4, vmax > 10; log mode with symbolic limits (numpy.exp/log are C code: only concrete representatives are executed); float rounding inside numpy.round/ceil"
ASSUMPTIONS = ["numpy.round / numpy.ceil inside robotools.utils are wrapped so that their integer results are concretised (bounded fork)",
               "execution check: composition tracking of the real Labware objects (C05) is the reference for the achieved concentration"]


def shards(tier):
    out = []
    rcs = [(1, 2), (1, 3), (2, 2), (1, 4)] + ([(2, 3), (1, 5)] if tier == "thorough" else [])
    for R, C in rcs:
        for vmax in ([6.0, "percol"] + (["dip"] if C >= 3 else []) if tier == "quick" else [6.0, 10.0, "percol", "dip"]):
            for stock in (1.0, 2.5):
                out.append(dict(part="plan", R=R, C=C, vmax=vmax, stock=stock))
    out.append(dict(part="concrete", concrete=True))
    return out


def weight(p):
    return p.get("R", 1) * p.get("C", 1) ** 2


def engine_opts(p, tier):
    return dict(mode="real", int_lo=0, int_hi=14, rlimit=100_000_000)


def witnesses(tier):
    return {"plan:ok", "plan:serial", "plan:rejected", "executed", "concrete:ok"}


_done = False


class _NS:
    """numpy stand-in for robotools.utils: round/ceil results are concretised so that every path is a concrete plan"""

    def __init__(self, base):
        self._b = base

    def __getattr__(self, n):
        return getattr(self._b, n)

    def _conc(self, x):
        if hasattr(x, "__sym__") and hasattr(x, "t"):
            from symex import core
            import z3
            eng = x.eng
            r = getattr(x, "rint", None)
            if r is None:
                n = z3.Int(f"n!{next(eng._fresh)}")
                eng.add(z3.ToReal(n) == x.t)
                r = n
            return float(eng.concretize_int(r))
        return x

    def _map(self, r):
        if isinstance(r, self._b.ndarray):
            return self._b.ndarray([self._conc(e) for e in r._f], r.shape)
        return self._conc(r)

    def round(self, x, decimals=0):
        return self._map(self._b.round(x, decimals))

    def ceil(self, x):
        return self._map(self._b.ceil(x))


def setup():
    global _done
    if _done:
        return
    from robotools import utils as u
    from symex import npshim
    u.numpy = _NS(npshim)
    _done = True


def vmax_arg(p):
    if p["vmax"] == "dip":   # a small column between larger ones
        return [8.0, 2.0, 8.0, 6.0, 8.0][: p["C"]] if p["C"] >= 3 else [8.0, 2.0][: p["C"]]
    if p["vmax"] == "percol":
        return [6.0 + 2 * c for c in range(p["C"])]
    return p["vmax"]


def scenario(ctx, p):
    ns = common.rt()
    from robotools.utils import DilutionPlan
    c = ctx.ctx
    if p["part"] == "concrete":
        case = ctx.choose("case", ["log", "log-deep", "badmode", "stock<xmax", "vmax-length", "linear-known"])
        c["case"] = case
        kw = dict(xmin=0.003, xmax=30.0, R=8, C=12, stock=30.0, mode="log", vmax=1000, min_transfer=20)
        if case == "log-deep":   # nine orders of magnitude: the most diluted wells hold fractions below 1e-8 of the stock
            kw = dict(xmin=1.0, xmax=1e9, R=8, C=12, stock=5e9, mode="log", vmax=1000, min_transfer=20)
        if case == "badmode":
            kw["mode"] = "cubic"
        elif case == "stock<xmax":
            kw["stock"] = 20.0
        elif case == "vmax-length":
            kw["vmax"] = [1000, 900]
        elif case == "linear-known":
            kw = dict(xmin=1, xmax=10, R=1, C=3, stock=20, mode="linear", vmax=1000, min_transfer=20)
        c["kw"] = kw
        return DilutionPlan(**kw)
    stock = p["stock"]
    xmax = ctx.real("xmax", None, stock)
    xmin = ctx.real("xmin")
    mt = ctx.real("min_transfer", 1, 6)
    ctx.assume(xmin > 0)
    ctx.assume(xmax > xmin)
    vm = vmax_arg(p)
    c.update(xmin=xmin, xmax=xmax, mt=mt, vm=vm, stock=stock)
    plan = DilutionPlan(xmin=xmin, xmax=xmax, R=p["R"], C=p["C"], stock=stock, mode="linear", vmax=vm, min_transfer=mt)
    c["plan"] = plan
    return plan


def as_list(v):
    return [float(x) for x in (v._f if hasattr(v, "_f") else list(v))]


def judge(ctx, p, outcome):
    kind, val = outcome
    if kind not in ("ok", "exc"):
        return
    c = ctx.ctx
    ns = common.rt()
    if p["part"] == "concrete":
        case = c["case"]
        if kind == "exc":
            if case in ("log", "log-deep", "linear-known") or not isinstance(val, ValueError):
                ctx.violate(f"C14: concrete case {case} raised {type(val).__name__}: {val}")
            return
        if case not in ("log", "log-deep", "linear-known"):
            ctx.violate(f"C14: invalid request ({case}) returned a plan")
            return
        ctx.reach("concrete:ok")
        check_plan(ctx, val, c["kw"]["R"], c["kw"]["C"], c["kw"]["stock"], c["kw"]["min_transfer"], "concrete " + case)
        execute(ctx, ns, val, c["kw"]["R"], c["kw"]["C"], "concrete " + case)
        return
    if kind == "exc":
        ctx.reach("plan:rejected")
        if not isinstance(val, ValueError):
            ctx.violate(f"C14: infeasible request raised {type(val).__name__} instead of ValueError: {val}")
        return
    ctx.reach("plan:ok")
    plan = val
    check_plan(ctx, plan, p["R"], p["C"], c["stock"], c["mt"], "")
    if any(src != "stock" for _, _, src, _ in plan.instructions):
        ctx.reach("plan:serial")
    execute(ctx, ns, plan, p["R"], p["C"], "")


def check_plan(ctx, plan, R, C, stock, mt, tag):
    instr = [(col, d, src, as_list(v)) for col, d, src, v in plan.instructions]
    vmax = as_list(plan.vmax)
    info = dict(instructions=instr, vmax=vmax)
    if [i[0] for i in instr] != list(range(C)):
        ctx.violate("C14: the plan does not prepare every column exactly once, in order", info=info)
        return
    prepared = set()
    drawn = {}
    x = {}
    for col, d, src, v in instr:
        if len(v) != R:
            ctx.violate("C14: an instruction does not hold one volume per row", info=info)
            return
        for vol in v:
            if vol != int(vol):
                ctx.violate("C14: a transfer volume is not a whole number of microlitres", info=info)
            ctx.prove(ctx.all_of([ctx.le(mt, vol), ctx.le(vol, vmax[col])]), "C14: a transfer volume is outside [min_transfer, vmax of the target column]", info=info)
        if src == "stock":
            if d != 0:
                ctx.violate("C14: stock column with a non-zero dilution step counter", info=info)
            x[col] = [Fraction(vol) / Fraction(vmax[col]) * Fraction(stock) for vol in v]
        else:
            if not (isinstance(src, int) and src in prepared):
                ctx.violate("C14: a column is prepared from a column that is not prepared earlier", info=info)
                return
            tot = drawn.setdefault(src, [0.0] * R)
            for r in range(R):
                tot[r] += v[r]
            x[col] = [Fraction(v[r]) * x[src][r] / Fraction(vmax[col]) for r in range(R)]
        prepared.add(col)
    for src, tot in drawn.items():
        for r in range(R):
            if tot[r] > vmax[src]:
                ctx.violate("C14: the plan draws more from a column than it holds", known=[("KF-C14-overdraw", True)] if False else (), info=info) if False else \
                    ctx.violate("C14: the plan draws more from a column than it holds", info=dict(info, column=src, drawn=tot[r], holds=vmax[src]))
                return
    # reported concentrations equal those implied by the instructions (exact arithmetic)
    px = plan.x
    for col in range(C):
        for r in range(R):
            got = px[r, col] if hasattr(px, "shape") and len(px.shape) == 2 else px[col]
            ctx.prove(ctx.within(got, float(x[col][r]), 1e-9 * max(1.0, float(x[col][r]))), "C14: reported concentration differs from the one implied by the instructions", info=info)
    vs = sum(sum(v) for _, d, src, v in instr if src == "stock")
    if abs(float(plan.v_stock) - vs) > 1e-9:
        ctx.violate("C14: v_stock is not the sum of the stock transfers", info=info)
    plan._verif_x = x


def execute(ctx, ns, plan, R, C, tag):
    """run to_worklist on both devices; tracked composition must equal the reported concentration"""
    if not hasattr(plan, "_verif_x"):
        return
    x = plan._verif_x
    vmax = as_list(plan.vmax)
    variants = [("evo", 1000, False, {}), ("fluent", 1000, False, {}),
                ("evo", 4, False, dict(mix_threshold=0.0, mix_repeat=1, mix_volume=0.5)),        # worklist max_volume below vmax: split steps; always mix
                ("fluent", 1000, True, dict(mix_repeat=3, mix_wash="flush")),                     # with a destination plate
                ("evo", 1000, "one-reservoir", {})]   # stock and diluent are two columns of ONE trough
    # what every column keeps after serving the later columns (a destination transfer needs something left)
    left = list(vmax)
    for col, d, src, v in plan.instructions:
        if src != "stock":
            left[src] -= max(as_list(v))
    for dev, wl_max, with_dest, kw in variants:
        one_res = with_dest == "one-reservoir"
        with_dest = with_dest is True
        if with_dest and min(left) < 0.5:
            continue   # a fully consumed column cannot feed a destination plate: that is the user's choice of v_destination, not the plan's fault
        stock = ns.Trough("stock", 2, 1, min_volume=0, max_volume=1e7, initial_volumes=1e6)
        diluent = ns.Trough("diluent", 3, 2, min_volume=0, max_volume=1e7, initial_volumes=[0, 1e6])
        skw = {}
        if one_res:
            stock = diluent = ns.Trough("reservoir", 3, 2, min_volume=0, max_volume=1e7, initial_volumes=[1e6, 1e6], column_names=["stock", "diluent"])
            skw = dict(stock_column=0)
        plate = ns.Labware("dil", max(R, 2), C + 1, min_volume=0, max_volume=1e5)
        dest = ns.Labware("dest", max(R, 2), C, min_volume=0, max_volume=1e5) if with_dest else None
        wl = common.make_worklist(ctx, dev, wl_max)
        if with_dest:
            kw = dict(kw, destination_plate=dest, v_destination=0.5)
        try:
            plan.to_worklist(worklist=wl, stock=stock, diluent=diluent, diluent_column=1, dilution_plate=plate, **skw, **kw)
        except Exception as ex:  # noqa: BLE001
            ctx.violate("C14: the plan cannot be executed as planned", info=f"{dev} max_volume={wl_max} dest={with_dest}: {type(ex).__name__}: {ex}; instructions={[(a, b, s, as_list(v)) for a, b, s, v in plan.instructions]}")
            return
        ctx.reach("executed")
        used_stock = 1e6 - float(stock.volumes[0, 0])
        used_dil = 1e6 - float(diluent.volumes[0, 1])
        if abs(used_stock - float(plan.v_stock)) > 1e-6:
            ctx.violate(f"C14: execution consumed {used_stock} of stock instead of v_stock={float(plan.v_stock)}")
        if used_dil > float(plan.v_diluent) + 1e-6:
            ctx.violate(f"C14: execution consumed {used_dil} of diluent, more than v_diluent={float(plan.v_diluent)}")
        for lab in ([plate, dest] if with_dest else [plate]):
            for col in range(C):
                for r in range(R):
                    comp = lab.get_well_composition(lab.wells[r, col])
                    frac = float(comp.get("stock", 0.0))
                    want = float(x[col][r]) / float(plan_stock(plan, x))
                    if abs(frac - want) > 1e-9 * max(abs(want), 1e-300):   # relative: tiny fractions count as much as large ones
                        ctx.violate("C14: tracked composition after execution differs from the reported concentration", info=dict(dev=dev, labware=lab.name, well=(r, col), tracked=frac, planned=want))
                        return
        if any(float(v) < -1e-9 for v in plate.volumes.flatten()):
            ctx.violate("C14: execution left a negative volume in the dilution plate")


def plan_stock(plan, x):
    # concentration is reported in units of the stock concentration: fraction = x / stock; recover stock from a stock column
    for col, d, src, v in plan.instructions:
        if src == "stock":
            vm = float(as_list(plan.vmax)[col])
            v0 = float(as_list(v)[0])
            return float(x[col][0]) * vm / v0
    return 1.0


def describe(ctx, p, outcome):
    c = ctx.ctx
    s = f"  {p} xmin={c.get('xmin')} xmax={c.get('xmax')} min_transfer={c.get('mt')} vmax={c.get('vm')} stock={c.get('stock')} case={c.get('case')}"
    if outcome[0] == "ok" and hasattr(outcome[1], "instructions"):
        s += f"\n  plan: {[(a, b, sr, as_list(v)) for a, b, sr, v in outcome[1].instructions]} x={outcome[1].x.tolist()}"
    else:
        s += f"\n  outcome: {outcome}"
    return s
