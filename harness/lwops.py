"""Labware-level add/remove with symbolic volumes, all argument shapes, and the sequential reference semantics
(shared by C02 and C04)."""
from harness import common

ROWS = "ABCDEFGHIJKLMNOPQRSTUVWXYZ"


def wid(r, c):
    return f"{ROWS[r]}{c + 1:02d}"


def build_args(ctx, lab, p):
    """-> (wells argument, volumes argument, pairs [(well id, volume)] in the order the operation must apply them)

    The pairing is computed independently of the labware's arrays: column-major flattening of nested lists."""
    kind, R, C = common.GEO[p["geo"]]
    vlo = p.get("vlo", 0)
    shape = ctx.choose("shape", p["shapes"])
    ids = [wid(r, c) for c in range(C) for r in range(R)]   # incl. virtual rows for troughs
    cand = common_candidates(ids)
    if shape == "scalar-id":
        w = ctx.choose("well0", cand)
        v = ctx.real("x0", vlo, nan=True) if getattr(ctx, "mode", "") == "fp" else ctx.real("x0", vlo)   # FP mode: NaN is a value of the type
        return w, v, [(w, v)], shape
    if shape in ("list", "list-scalar", "list-short"):
        k = p["k"]
        ws = [ctx.choose(f"well{i}", cand) for i in range(k)]
        if shape == "list-scalar":
            v = ctx.real("x0", vlo)
            return ws, v, [(w, v) for w in ws], shape
        if shape == "list-short":   # incompatible lengths: must be rejected
            vs = [ctx.real(f"x{i}", vlo) for i in range(k + 1)]
            return ws, vs, None, shape
        vs = [ctx.real(f"x{i}", vlo) for i in range(k)]
        return ws, vs, list(zip(ws, vs)), shape
    if shape == "2d-col-flatvols":
        # a column of wells as an (n, 1) array with a plain list of n volumes: element-wise pairing (not numpy broadcasting)
        r1 = min(R, 3)
        warr = lab.wells[0:r1, 0:1]
        vs = [ctx.real(f"x{r}", vlo) for r in range(r1)]
        return warr, vs, [(wid(r, 0), vs[r]) for r in range(r1)], shape
    if shape in ("2d", "2d-scalar", "2d-flatvols"):
        r1, c1 = min(R, 2), min(C, p.get("c2d", 2))
        warr = lab.wells[0:r1, 0:c1]
        nested_ids = [[wid(r, c) for c in range(c1)] for r in range(r1)]
        if shape == "2d-scalar":
            v = ctx.real("x0", vlo)
            return warr, v, [(nested_ids[r][c], v) for c in range(c1) for r in range(r1)], shape
        vs = [[ctx.real(f"x{r}_{c}", vlo) for c in range(c1)] for r in range(r1)]
        pairs = [(nested_ids[r][c], vs[r][c]) for c in range(c1) for r in range(r1)]
        if shape == "2d-flatvols":  # 1-D volume list pairs with the column-major flattened wells
            flat = [vs[r][c] for c in range(c1) for r in range(r1)]
            return warr, flat, pairs, shape
        return warr, vs, pairs, shape
    raise AssertionError(shape)


def common_candidates(ids):
    out = list(ids[:3])
    if ids[-1] not in out:
        out.append(ids[-1])
    return out


def real_index(lab_kind, well):
    r = ROWS.index(well[0])
    c = int(well[1:]) - 1
    return (0, c) if lab_kind == "trough" else (r, c)


def reference(ctx, kind, pre, pairs, sign, vmin, vmax):
    """sequential semantics: list of (state_before_j, violation_j) and the final state"""
    states = [dict(pre)]
    viols, weak = [], []
    for (w, v) in pairs:
        cur = dict(states[-1])
        idx = real_index(kind, w)
        new = cur[idx] + v if sign > 0 else cur[idx] - v
        viols.append((new > vmax) if sign > 0 else (new < vmin))
        weak.append((new >= vmax) if sign > 0 else (new <= vmin))
        cur[idx] = new
        states.append(cur)
    return states, viols, weak


def check_sequential(ctx, lab, kind, pre, pairs, sign, outcome, ns, prop, sel=None):
    """state equality as identities of linear forms; exception type and 'offending well unchanged'"""
    okind, val = outcome
    vmin, vmax = lab.min_volume, lab.max_volume
    states, viols, weak = reference(ctx, kind, pre, pairs, sign, vmin, vmax)
    wells = sorted(pre)

    def state_is(st):
        return ctx.all_of([ctx.eq(lab._volumes[w], st[w]) for w in wells])

    if okind == "ok":
        ctx.reach("ok")
        if sel in (None, "limit"):
            ctx.prove(ctx.not_(ctx.any_of(viols)), f"{prop}: operation returned normally although a sub-step violates the volume limit")
        if sel in (None, "state"):
            ctx.prove(state_is(states[-1]), f"{prop}: post-state differs from initial +/- the addressed volumes (per real well, column-major pairing)")
        for w in (wells if sel in (None, "post") else []):
            v = lab._volumes[w]
            ctx.prove(ctx.le(0, v), f"{prop}: negative volume after a normal return")
            touched = any(real_index(kind, pw) == w for pw, _ in pairs)
            if touched:
                if sign > 0:
                    ctx.prove(ctx.le(v, vmax), f"{prop}: well above max_volume after add returned normally")
                else:
                    ctx.prove(ctx.le(vmin, v), f"{prop}: well below min_volume after remove returned normally")
        return
    want = ns.VolumeOverflowError if sign > 0 else ns.VolumeUnderflowError
    if isinstance(val, ns.VolumeViolationException):
        ctx.reach("exc:" + type(val).__name__)
        if sel not in (None, "exc"):
            return
        if type(val) is not want:
            ctx.violate(f"{prop}: wrong exception type {type(val).__name__} for {'add' if sign > 0 else 'remove'}")
        # some sub-step j is rejected: the earlier ones were acceptable, j reaches (weakly: the property does not promise
        # acceptance at the exact limit) or exceeds the limit, and the state is 'sub-steps < j applied, offending well unchanged'
        cases = []
        for j in range(len(pairs)):
            cases.append(ctx.all_of([ctx.not_(x) for x in viols[:j]] + [weak[j], state_is(states[j])]))
            # a strict violation at j with all earlier sub-steps fine must be the one that is reported
            first_j = ctx.all_of([ctx.not_(x) for x in weak[:j]] + [viols[j]])
            ctx.prove(ctx.implies(first_j, state_is(states[j])), f"{prop}: after a rejected sub-step {j} the state is not 'earlier sub-steps applied, offending well unchanged'")
        ctx.prove(ctx.any_of(cases), f"{prop}: volume-violation raised but no sub-step reaches a limit with the state left as 'earlier sub-steps applied, offending well unchanged'")
    else:
        ctx.reach("exc:other")
