"""C03 - a worklist never contains a rejected or oversized pipetting step, even on abort."""
from harness import common, wlops
from oracles import gwl

ID = "C03"
BOUNDS = {
    "quick": "one operation (aspirate|dispense|transfer|distribute) from an arbitrary valid state, inspected on EVERY path including those "
             "ending in an exception at any sub-step (underflow at the k-th well, overflow at the destination after a successful aspirate, "
             "step > max_volume with auto_split off); both devices; plate 2x2 / trough 3x2; k<=2; <=3 split steps; auto_split on and off; "
             "symbolic labware limits, worklist max_volume and volumes; plus the EVO script commands evo_aspirate / evo_dispense with 1-2 tips (per-tip or "
             "scalar symbolic volumes) on a plate 4x2 / trough 4x2, decoded with the independent EVO script oracle; a NaN volume followed by a step that must be refused (concrete execution, 24 cases)",
    "thorough": "as quick with 4 candidate wells per slot for k=2, <=4 split steps, geometries plate 3x2/8x2 and trough 8x1, all partition modes",
}
OUTSIDE = "k>2, more split steps, other geometries; the file written by __exit__ is the record list (C17 decides the writer)"
ASSUMPTIONS = [
    "inductive step: records are only ever appended, earlier operations were accepted from a valid state, so replaying the records of the last "
    "(possibly failing) operation from its arbitrary valid pre-state covers every prefix",
    "tolerance: 0.005 uL per record touching the well (two-decimal format)",
]


def shards(tier):
    out = []
    geos = [("p2x2", "p2x2"), ("p2x2", "t3x2"), ("t3x2", "p2x2"), ("t3x2", "t3x2")]
    if tier == "thorough":
        geos += [("p3x2", "p8x2"), ("t8x1", "p8x2")]
    for dev in ("evo", "fluent"):
        for sg, dg in geos:
            for op in ("aspirate", "dispense"):
                out.append(dict(dev=dev, op=op, sgeo=sg, dgeo=dg, k=2, steps=1))
            if sg.startswith("t"):
                out.append(dict(dev=dev, op="distribute", sgeo=sg, dgeo=dg, k=1, steps=1))
            pbs = ("auto",) if tier == "quick" else ("auto", "source", "destination")
            for pb in pbs:
                for auto in (True, False):
                    out.append(dict(dev=dev, op="transfer", sgeo=sg, dgeo=dg, k=1, steps=3 if tier == "quick" else 4, partition_by=pb, auto_split=auto))
                    if pb == "auto" or not auto:
                        out.append(dict(dev=dev, op="transfer", sgeo=sg, dgeo=dg, k=2, steps=2, partition_by=pb, auto_split=auto, washes=[1],
                                        ncand=2 if tier == "quick" else 4))
        out.append(dict(dev=dev, op="transfer", sgeo="p2x2", dgeo="p2x2", same=True, k=2, steps=2, partition_by="auto", washes=[1], ncand=2))
        # both plates constructed (public constructor) from one caller-owned float array: their states must stay independent
        out.append(dict(dev=dev, op="transfer", sgeo="p2x2", dgeo="p2x2", shared_init=True, k=1, steps=2, partition_by="auto", auto_split=True, washes=[1]))
    # a NaN volume (invalid argument) followed by a step that must be refused: concrete execution on the real numpy
    out.append(dict(part="nan", concrete=True, k=1, steps=1, op="aspirate", dev="evo"))
    # EVO script commands (multi-tip aspirate / dispense) are pipetting steps of the worklist too
    for cmd in ("evo_aspirate", "evo_dispense"):
        for kind in ("plate", "trough"):
            out.append(dict(part="evo", cmd=cmd, kind=kind, k=2, steps=1, op=cmd, dev="evo"))
    return out


def weight(p):
    return (p["k"] ** 3) * p["steps"] * (3 if p["op"] == "transfer" else 1)


def engine_opts(p, tier):
    return dict(mode="real", int_lo=1, int_hi=p["steps"])


def witnesses(tier):
    return {"exc:VolumeUnderflowError", "exc:VolumeOverflowError", "exc:InvalidOperationError", "ok", "exc-after-records"}


def scenario_evo(ctx, p):
    ns = common.rt()
    c = ctx.ctx
    m = ctx.real("wl_max", None, common.BIG)
    ctx.assume(m > 0)
    wl = ns.EvoWorklist(max_volume=m, auto_split=ctx.choose("auto_split", [True, False]))
    lab, g, pre = common.make_labware(ctx, "P", ("plate", 4, 2) if p["kind"] == "plate" else ("trough", 4, 2), filled=False)
    wells = ctx.choose("wells", [["A01", "B01"], ["B01", "D01"], ["A02"]])
    tips = [1, 2][: len(wells)] if ctx.choose("tips", ["1,2", "3,7"]) == "1,2" else [3, 7][: len(wells)]
    per = [ctx.real(f"x{i}", 0, common.BIG) for i in range(len(wells))]
    vols = per if ctx.choose("volshape", ["list", "scalar"]) == "list" else per[0]
    if not isinstance(vols, list):
        per = [per[0]] * len(wells)
    c.update(wl=wl, lab=lab, pre={k[1]: v for k, v in pre.items()}, m=m, wells=wells, tips=tips, per=per, kind=p["kind"])
    getattr(wl, p["cmd"])(lab, wells, (30, 2), tips, vols, "LC")
    return wl


def judge_evo(ctx, p, outcome):
    from oracles import evoscript
    kind, val = outcome
    c = ctx.ctx
    ns = common.rt()
    wl, lab, m = c["wl"], c["lab"], c["m"]
    if kind == "exc":
        if not isinstance(val, (ns.VolumeViolationException, ns.InvalidOperationError, ValueError)):
            ctx.violate(f"C03: unexpected exception type {type(val).__name__}: {val}")
            return
        ctx.reach(f"exc:{type(val).__name__}")
    else:
        ctx.reach("ok")
    vol = dict(c["pre"])
    for irec, rec in enumerate(wl):
        if not rec.startswith(("B;Aspirate(", "B;Dispense(")):
            continue
        try:
            name, args = evoscript.parse(rec)
            R, C, selwells = evoscript.decode_selection(evoscript.unq(args[17]))
        except evoscript.Reject as ex:
            ctx.violate(f"C03: records present after the operation are not executable: {ex}")
            return
        mask = int(args[0])
        slots = [evoscript.unq(a) for a in args[2:14]]
        tips_sel = [i for i in range(8) if mask >> i & 1]
        if len(tips_sel) != len(selwells):
            ctx.violate("C03: EVO command selects different numbers of tips and wells")
            return
        for tip, (r, col) in zip(tips_sel, sorted(selwells, key=lambda w: (w[1], w[0]))):
            v, _ = ctx.field(slots[tip])
            ctx.prove(ctx.le(v, m + wlops.HALF_CENT), f"C03: a step of the {name} command exceeds the worklist max_volume")
            real = (0, col) if c["kind"] == "trough" else (r, col)
            if name == "Aspirate":
                vol[real] = vol[real] - v
                ctx.prove(ctx.le(lab.min_volume - wlops.HALF_CENT * 2, vol[real]), f"C03: replayed record {irec + 1} takes P{real} below min_volume")
            else:
                vol[real] = vol[real] + v
                ctx.prove(ctx.le(vol[real], lab.max_volume + wlops.HALF_CENT * 2), f"C03: replayed record {irec + 1} takes P{real} above max_volume")


def describe_evo(ctx, p, outcome):
    c = ctx.ctx
    return (f"  {p['cmd']} on {c.get('kind')} wells={c.get('wells')} tips={c.get('tips')} volumes={c.get('per')!r} worklist.max_volume={c.get('m')!r}\n"
            f"  pre={c.get('pre')} min={getattr(c.get('lab'), 'min_volume', None)} max={getattr(c.get('lab'), 'max_volume', None)}\n  outcome={outcome[0]} {outcome[1] if outcome[0] == 'exc' else ''} records={list(c['wl']) if 'wl' in c else None}")


def scenario_nan(ctx, p):
    ns = common.rt()
    c = ctx.ctx
    dev = ctx.choose("dev", ["evo", "fluent"])
    op = ctx.choose("op", ["aspirate", "dispense"])
    form = ctx.choose("form", ["two-calls", "one-call-repeated-well", "labware-then-worklist"])
    kind = ctx.choose("kind", ["plate", "trough"])
    lab = ns.Labware("P", 2, 2, min_volume=10, max_volume=300, initial_volumes=100) if kind == "plate" else ns.Trough("P", 2, 2, min_volume=10, max_volume=300, initial_volumes=100)
    wl = common.make_worklist(ctx, dev, 1000)
    bad, big = float("nan"), 250.0   # 100 - 250 < 10 and 100 + 250 > 300: the second step must be refused
    c.update(wl=wl, lab=lab, cfg=(dev, op, form, kind), excs=[])
    calls = {"two-calls": [lambda: getattr(wl, op)(lab, "A01", bad), lambda: getattr(wl, op)(lab, "A01", big)],
             "one-call-repeated-well": [lambda: getattr(wl, op)(lab, ["A01", "A01"], [bad, big])],
             "labware-then-worklist": [lambda: (lab.remove if op == "aspirate" else lab.add)("A01", bad), lambda: getattr(wl, op)(lab, "A01", big)]}[form]
    for f in calls:
        try:
            f()
        except Exception as ex:  # noqa: BLE001
            c["excs"].append(type(ex).__name__)
    return wl


def judge_nan(ctx, p, outcome):
    c = ctx.ctx
    ctx.reach("ok")
    vol = 100.0
    for i, rec in enumerate(c["wl"]):
        f = rec.split(";")
        if f[0] == "A":
            vol -= float(f[6])
            if vol < 10 - 0.005:
                ctx.violate("C03: replayed record takes the well below min_volume after a NaN volume was given", info=f"{c['cfg']} records={list(c['wl'])} exceptions={c['excs']}")
                return
        elif f[0] == "D":
            vol += float(f[6])
            if vol > 300 + 0.005:
                ctx.violate("C03: replayed record takes the well above max_volume after a NaN volume was given", info=f"{c['cfg']} records={list(c['wl'])} exceptions={c['excs']}")
                return


def scenario(ctx, p):
    if p.get("part") == "nan":
        return scenario_nan(ctx, p)
    if p.get("part") == "evo":
        return scenario_evo(ctx, p)
    W = wlops.build(ctx, p)
    ctx.ctx["W"] = W
    wlops.run(ctx, W)
    return W


def judge(ctx, p, outcome):
    kind, val = outcome
    if kind not in ("ok", "exc"):
        return
    if p.get("part") == "nan":
        return judge_nan(ctx, p, outcome)
    if p.get("part") == "evo":
        return judge_evo(ctx, p, outcome)
    W = ctx.ctx["W"]
    ns = common.rt()
    recs = list(W.wl)
    if kind == "exc":
        if not isinstance(val, (ns.VolumeViolationException, ns.InvalidOperationError, ValueError, AssertionError)):
            ctx.violate(f"C03: unexpected exception type {type(val).__name__}: {val}")
            return
        ctx.reach(f"exc:{type(val).__name__}")
        if any(r[0] in "ADR" for r in recs):
            ctx.reach("exc-after-records")
    else:
        ctx.reach("ok")
    try:
        sim = wlops.simulate(ctx, W)
    except gwl.OracleReject as ex:
        ctx.violate(f"C03: records present after the operation are not executable: {ex}")
        return
    wlops.check_replay_bounds(ctx, W, sim)
    if kind == "exc" and isinstance(val, ns.InvalidOperationError) and not p.get("auto_split", True):
        pass


_describe01 = __import__("harness.C01", fromlist=["describe"]).describe


def describe(ctx, p, outcome):
    if p.get("part") == "nan":
        c = ctx.ctx
        return f"  {c.get('cfg')} records={list(c['wl']) if 'wl' in c else None} exceptions={c.get('excs')}"
    if p.get("part") == "evo":
        return describe_evo(ctx, p, outcome)
    return _describe01(ctx, p, outcome)
