"""C03 - a worklist never contains a rejected or oversized pipetting step, even on abort."""
from harness import common, wlops
from oracles import gwl

ID = "C03"
BOUNDS = {
    "quick": "one operation (aspirate|dispense|transfer|distribute) from an arbitrary valid state, inspected on EVERY path including those "
             "ending in an exception at any sub-step (underflow at the k-th well, overflow at the destination after a successful aspirate, "
             "step > max_volume with auto_split off); both devices; plate 2x2 / trough 3x2; k<=2; <=3 split steps; auto_split on and off; "
             "symbolic labware limits, worklist max_volume and volumes",
    "thorough": "as quick with 4 candidate wells per slot for k=2, <=4 split steps, geometries plate 3x2/8x2 and trough 8x1, all partition modes",
}
OUTSIDE = "k>2, more split steps, other geometries; the file written by __exit__ is the record list (C17 decides the writer)"
ASSUMPTIONS = [
    "inductive step: records are only ever appended, earlier operations were accepted from a valid state, so replaying the records of the last "
    "(possibly failing) operation from its arbitrary valid pre-state covers every prefix",
    "tolerance: 0.005 uL per record touching the well (two-decimal format)",
]


def shards(tier):
    out = []
    geos = [("p2x2", "p2x2"), ("p2x2", "t3x2"), ("t3x2", "p2x2"), ("t3x2", "t3x2")]
    if tier == "thorough":
        geos += [("p3x2", "p8x2"), ("t8x1", "p8x2")]
    for dev in ("evo", "fluent"):
        for sg, dg in geos:
            for op in ("aspirate", "dispense"):
                out.append(dict(dev=dev, op=op, sgeo=sg, dgeo=dg, k=2, steps=1))
            if sg.startswith("t"):
                out.append(dict(dev=dev, op="distribute", sgeo=sg, dgeo=dg, k=1, steps=1))
            pbs = ("auto",) if tier == "quick" else ("auto", "source", "destination")
            for pb in pbs:
                for auto in (True, False):
                    out.append(dict(dev=dev, op="transfer", sgeo=sg, dgeo=dg, k=1, steps=3 if tier == "quick" else 4, partition_by=pb, auto_split=auto))
                    if pb == "auto" or not auto:
                        out.append(dict(dev=dev, op="transfer", sgeo=sg, dgeo=dg, k=2, steps=2, partition_by=pb, auto_split=auto, washes=[1],
                                        ncand=2 if tier == "quick" else 4))
        out.append(dict(dev=dev, op="transfer", sgeo="p2x2", dgeo="p2x2", same=True, k=2, steps=2, partition_by="auto", washes=[1], ncand=2))
        # both plates constructed (public constructor) from one caller-owned float array: their states must stay independent
        out.append(dict(dev=dev, op="transfer", sgeo="p2x2", dgeo="p2x2", shared_init=True, k=1, steps=2, partition_by="auto", auto_split=True, washes=[1]))
    return out


def weight(p):
    return (p["k"] ** 3) * p["steps"] * (3 if p["op"] == "transfer" else 1)


def engine_opts(p, tier):
    return dict(mode="real", int_lo=1, int_hi=p["steps"])


def witnesses(tier):
    return {"exc:VolumeUnderflowError", "exc:VolumeOverflowError", "exc:InvalidOperationError", "ok", "exc-after-records"}


def scenario(ctx, p):
    W = wlops.build(ctx, p)
    ctx.ctx["W"] = W
    wlops.run(ctx, W)
    return W


def judge(ctx, p, outcome):
    kind, val = outcome
    if kind not in ("ok", "exc"):
        return
    W = ctx.ctx["W"]
    ns = common.rt()
    recs = list(W.wl)
    if kind == "exc":
        if not isinstance(val, (ns.VolumeViolationException, ns.InvalidOperationError, ValueError, AssertionError)):
            ctx.violate(f"C03: unexpected exception type {type(val).__name__}: {val}")
            return
        ctx.reach(f"exc:{type(val).__name__}")
        if any(r[0] in "ADR" for r in recs):
            ctx.reach("exc-after-records")
    else:
        ctx.reach("ok")
    try:
        sim = wlops.simulate(ctx, W)
    except gwl.OracleReject as ex:
        ctx.violate(f"C03: records present after the operation are not executable: {ex}")
        return
    wlops.check_replay_bounds(ctx, W, sim)
    if kind == "exc" and isinstance(val, ns.InvalidOperationError) and not p.get("auto_split", True):
        pass


describe = __import__("harness.C01", fromlist=["describe"]).describe
