"""One symbolic worklist operation from an arbitrary valid labware state (+ the oracle-side checks shared by
C01 / C03 / C06 / C07 / C11 / C16).  Runs on the symbolic engine and on the concrete replay context."""
from harness import common
from oracles import gwl
from fractions import Fraction

HALF_CENT = Fraction(1, 200)   # exact: the float 0.005*n is not the rational n/200


class World:
    pass


def candidates(ids, n_first=3):
    out = list(ids[:n_first])
    if ids[-1] not in out:
        out.append(ids[-1])
    return out


def cand(p, ids, side):
    if p.get("cands"):
        return [ids[i] for i in p["cands"][0 if side == "src" else 1]]
    n = p.get("ncand", 4)
    if n >= 4:
        return candidates(ids)
    if side == "src":
        return list(dict.fromkeys([ids[0], ids[1] if len(ids) > 1 else ids[0]]))
    return list(dict.fromkeys([ids[0], ids[-1]]))


def build(ctx, p):
    """p: dev, op, sgeo, dgeo, same(bool), k, plus op-specific bounds"""
    W = World()
    W.p = p
    W.dev = p["dev"]
    filled = p.get("filled", bool(p.get("comp")))
    shared = None
    if p.get("shared_init"):
        # both labware are constructed from one caller-owned float array (each must keep its own copy)
        _, R_, C_ = common.GEO[p["sgeo"]]
        shared = ctx.np.array([[ctx.real(f"iv{r}_{c}", 0, common.BIG) for c in range(C_)] for r in range(R_)], dtype=float)
    own = {}
    if p.get("ctor_init"):
        # every labware is built by the public constructor from its own float array of symbolic volumes (state and history as constructed)
        for nm, geo in (("S", p["sgeo"]), ("D", p["dgeo"])):
            _, R_, C_ = common.GEO[geo]
            own[nm] = ctx.np.array([[ctx.real(f"{nm}_iv{r}_{c}", 0, common.BIG) for c in range(C_)] for r in range(R_)], dtype=float)
    W.src, gs, pre_s = common.make_labware(ctx, "S", p["sgeo"], filled=filled, init_array=own.get("S", shared))
    if p.get("same"):
        W.dst, gd, pre_d = W.src, gs, {}
        W.geos = [gs]
    else:
        W.dst, gd, pre_d = common.make_labware(ctx, "D", p["dgeo"], filled=filled, init_array=own.get("D", shared))
        W.geos = [gs, gd]
    W.geo = {g.name: g for g in W.geos}
    W.labs = {"S": W.src, W.dst.name: W.dst}
    W.pre = {**pre_s, **pre_d}
    W.pre_comp = {}
    for lab in W.labs.values():
        W.pre_comp.update(common.initial_compositions(lab))
    m = p.get("wl_max", "sym")
    if m == "sym":
        m = ctx.real("wl_max", None, common.BIG)
        ctx.assume(m > 0)
    W.wl_max = m
    W.wl = common.make_worklist(ctx, W.dev, m, auto_split=p.get("auto_split", True), diti_mode=p.get("diti", False))
    W.named = []   # (rack, well id, sign, requested volume)
    W.pairs = []   # (source id, destination id, volume) for transfers
    W.nhist = {n: len(lab._history) for n, lab in W.labs.items()}
    return W


class _Chooser:
    """ctx.choose with a per-operation memo: a second world replays the choices of the first"""

    def __init__(self, ctx, memo):
        self.ctx, self.memo = ctx, memo

    def choose(self, name, options):
        if name in self.memo:
            return self.memo[name]
        v = self.ctx.choose(name, options)
        self.memo[name] = v
        return v

    def __getattr__(self, a):
        return getattr(self.ctx, a)


class _Prefixed:
    """prefixes the names of symbolic inputs / choices: several operations in one scenario"""

    def __init__(self, ctx, prefix):
        self.ctx, self.prefix = ctx, prefix

    def real(self, name, *a, **k):
        return self.ctx.real(self.prefix + name, *a, **k)

    def int(self, name, *a, **k):
        return self.ctx.int(self.prefix + name, *a, **k)

    def choose(self, name, options):
        return self.ctx.choose(self.prefix + name, options)

    def absstr(self, name, *a, **k):
        return self.ctx.absstr(self.prefix + name, *a, **k)

    def chars(self, name, *a, **k):
        return self.ctx.chars(self.prefix + name, *a, **k)

    def __getattr__(self, a):
        return getattr(self.ctx, a)


def run_seq(ctx, W, ops):
    """several operations (aspirate / dispense / transfer) on the same world and worklist; W.named / W.pairs accumulate"""
    base = dict(W.p)
    named, pairs, cfgs = [], [], []
    W.op_outcomes = []
    for i, op in enumerate(ops):
        W.p = dict(base, **op)
        W.named, W.pairs = [], []
        run(_Prefixed(ctx, f"op{i + 1}:"), W)
        named += W.named
        pairs += W.pairs
        cfgs.append(W.cfg)
        W.named, W.pairs = list(named), list(pairs)   # visible to the judge if a later operation raises
    W.p = dict(base, op="seq")
    W.cfg = tuple(cfgs)
    return W


def run(ctx, W, memo=None):
    if memo is not None:
        ctx = _Chooser(ctx, memo)
    p = W.p
    op = p["op"]
    wl = W.wl
    k = p.get("k", 1)
    sids, dids = common.all_ids(W.src), common.all_ids(W.dst)
    label = p.get("label")
    kw = {}
    if label is not None:
        kw["label"] = label
    W.label = label
    if op in ("aspirate", "dispense"):
        lab, ids = (W.src, sids) if op == "aspirate" else (W.dst, dids)
        cnd = cand(p, ids, "src")
        wells = [ctx.choose(f"well{i}", cnd) for i in range(k)]
        shape = ctx.choose("volshape", p.get("volshapes", ["list", "scalar"]))
        if shape == "scalar":
            v = ctx.real("x0", 0, common.BIG)
            vols, per = v, [v] * k
        else:
            per = [ctx.real(f"x{i}", 0, common.BIG) for i in range(k)]
            vols = list(per)
        sign = -1 if op == "aspirate" else 1
        W.named = [(lab.name, w, sign, v) for w, v in zip(wells, per)]
        W.cfg = (op, tuple(wells), shape)
        getattr(wl, op)(lab, wells, vols, **kw)
    elif op == "transfer":
        SRC, DST = (W.dst, W.src) if p.get("reverse") else (W.src, W.dst)
        if p.get("reverse"):
            sids, dids = dids, sids
        sc, dc = cand(p, sids, "src"), cand(p, dids, "dst")
        vlo = -common.BIG if p.get("neg") else 0
        arg_s = arg_d = arg_v = None
        if p.get("shape2d"):
            # 2-D array arguments (read column-major): wells[0:2, 0:2] of both labware, volumes as a 2x2 nested list
            rr, cc = min(2, len(W.src.row_ids), len(W.dst.row_ids)), min(2, W.src.n_columns, W.dst.n_columns)
            arg_s, arg_d = SRC.wells[0:rr, 0:cc], DST.wells[0:rr, 0:cc]
            grid = [[ctx.real(f"x{r}_{c}", vlo, common.BIG) for c in range(cc)] for r in range(rr)]
            arg_v = grid
            rows = "ABCDEFGHIJKLMNOPQRSTUVWXYZ"
            sw = [f"{rows[r]}{c + 1:02d}" for c in range(cc) for r in range(rr)]
            dw = list(sw)
            per = [grid[r][c] for c in range(cc) for r in range(rr)]
            k = len(per)
        elif p.get("bcast"):
            # singleton arguments are broadcast: one source / destination / volume for k triples
            which = ctx.choose("bcast", p["bcast"])   # e.g. "src:scalar", "dst:list1", "vol:scalar", "src:scalar+vol:scalar"
            sw = [ctx.choose(f"src{i}", sc) for i in range(k)]
            dw = [ctx.choose(f"dst{i}", dc) for i in range(k)]
            per = [ctx.real(f"x{i}", vlo, common.BIG) for i in range(k)]
            arg_s, arg_d, arg_v = list(sw), list(dw), list(per)
            for part in which.split("+"):
                what, form = part.split(":")
                if what == "src":
                    sw = [sw[0]] * k
                    arg_s = sw[0] if form == "scalar" else [sw[0]]
                elif what == "dst":
                    dw = [dw[0]] * k
                    arg_d = dw[0] if form == "scalar" else [dw[0]]
                else:
                    per = [per[0]] * k
                    arg_v = per[0] if form == "scalar" else [per[0]]
        else:
            sw = [ctx.choose(f"src{i}", sc) for i in range(k)]
            dw = [ctx.choose(f"dst{i}", dc) for i in range(k)]
            per = [ctx.real(f"x{i}", vlo, common.BIG) for i in range(k)]
        for s_, d_, v in zip(sw, dw, per):
            W.named += [(SRC.name, s_, -1, v), (DST.name, d_, 1, v)]
            W.pairs.append((s_, d_, v))
        wash = ctx.choose("wash", p.get("washes", [1, "reuse"]))
        W.wash = wash
        W.cfg = (op, tuple(sw), tuple(dw), p.get("partition_by", "auto"), wash)
        W.kwargs = {}
        if p.get("kwargs"):
            from robotools.evotools.types import Tip
            W.kwargs["liquid_class"] = ctx.absstr("lc")
            W.kwargs["rack_id"] = ctx.absstr("rack_id")
            tip = ctx.choose("tip", ["default", 3, (1, 2), "T8", "Any"])
            if tip != "default":
                W.kwargs["tip"] = {"T8": Tip.T8, "Any": Tip.Any}.get(tip, tip) if isinstance(tip, str) else tip
            W.tipspec = tip
        args_v = per
        if p.get("bad") == "vols+1":
            args_v = per + [ctx.real("x_extra", 0)]
        elif p.get("bad") == "dst+1":
            dw = dw + [dc[0]]
        elif p.get("bad") == "vols-1":
            args_v = per[:-1]
        elif p.get("bad") == "src-1":
            sw = sw[:-1]
        if arg_s is not None:
            wl.transfer(SRC, arg_s, DST, arg_d, arg_v, partition_by=p.get("partition_by", "auto"), wash_scheme=wash, **W.kwargs, **kw)
        else:
            wl.transfer(SRC, sw, DST, dw, args_v, partition_by=p.get("partition_by", "auto"), wash_scheme=wash, **W.kwargs, **kw)
    elif op == "distribute":
        col = ctx.choose("col", list(range(W.src.n_columns)))
        sels = p.get("dsels") or [[0], [0, -1], [1, 2, 0]]
        dsel = ctx.choose("dsel", sels)
        ids = [dids[i] for i in dsel]
        g = W.geo[W.dst.name]
        seen, uniq = set(), []
        for w in ids:   # pairwise distinct positions (the precondition of C01); C16 keeps the wells exactly as chosen
            if p.get("uniq_dev") == "none":
                uniq.append(w)
                continue
            pos = g.encode(w, p.get("uniq_dev", W.dev))
            if pos not in seen:
                seen.add(pos)
                uniq.append(w)
        v = ctx.real("x0", 0, common.BIG)
        md = ctx.choose("multi_disp", p.get("multi_disp", [1, 3]))
        sid = sids[col * len(W.src.row_ids)]
        W.named = [("S", sid, -1, v) for _ in uniq] + [(W.dst.name, w, 1, v) for w in uniq]
        W.dist = dict(col=col, wells=uniq, volume=v, multi_disp=md)
        W.cfg = (op, col, tuple(uniq), md)
        if label is None:
            wl.distribute(W.src, col, W.dst, uniq, volume=v, multi_disp=md)
        else:
            wl.distribute(W.src, col, W.dst, uniq, volume=v, multi_disp=md, label=label)
    elif op in ("evo_aspirate", "evo_dispense"):
        lab, ids = (W.src, sids) if op == "evo_aspirate" else (W.dst, dids)
        nrow = len(lab.row_ids)
        cnd = list(dict.fromkeys([ids[0], ids[min(1, len(ids) - 1)], ids[min(nrow, len(ids) - 1)]]))
        wells = [ctx.choose(f"well{i}", cnd) for i in range(k)]
        shape = ctx.choose("volshape", ["list", "scalar"])
        if shape == "scalar":
            v = ctx.real("x0", 0, common.BIG)
            vols, per = v, [v] * k
        else:
            per = [ctx.real(f"x{i}", 0, common.BIG) for i in range(k)]
            vols = list(per)
        sign = -1 if op == "evo_aspirate" else 1
        W.named = [(lab.name, w, sign, v) for w, v in zip(wells, per)]
        W.cfg = (op, tuple(wells), shape)
        getattr(wl, op)(lab, wells, (38, 2), list(range(1, k + 1)), vols, "LC", **kw)
    else:
        raise AssertionError(op)
    return W


# ----------------------------------------------------------------------------------------------- oracle side
def simulate(ctx, W, with_comp=False):
    comp = W.pre_comp if with_comp else None
    return gwl.Interpreter(ctx, W.dev, W.geos, W.pre, comp).run(list(W.wl))


def check_replay_bounds(ctx, W, sim, prop="C03"):
    """after every record: an aspirated well stays >= min_volume, a filled well <= max_volume (within the
    format's rounding per record touching the well); every single step <= worklist max_volume"""
    for (rack, w), vol, n, kd, irec in sim.trace:
        lab = W.labs[rack]
        tol = HALF_CENT * n
        if kd == "A":
            ctx.prove(ctx.le(lab.min_volume - tol, vol), f"{prop}: replayed record {irec} takes {rack}{w} below min_volume")
        else:
            ctx.prove(ctx.le(vol, lab.max_volume + tol), f"{prop}: replayed record {irec} takes {rack}{w} above max_volume")
    for st in sim.steps:
        # the step volume as requested (pre-rounding) when the record carries it, else the written value minus the format's rounding
        ex = st[5] if st[5] is not None else st[4] - HALF_CENT
        if st[0] in ("A", "D"):
            ctx.prove(ctx.le(ex, W.wl_max), f"{prop}: {st[0]} step exceeds the worklist max_volume")
        else:
            mdv = ctx.int_field(st[7][14])
            ctx.prove(ctx.le(ex * mdv, W.wl_max), f"{prop}: R record volume x multi_disp exceeds the worklist max_volume")


def check_state_agreement(ctx, W, sim, prop="C01"):
    # (i) twin == simulation within rounding
    for (rack, w), sv in sim.vol.items():
        tv = W.labs[rack]._volumes[w]
        ctx.prove(ctx.within(sv, tv, HALF_CENT * sim.touch[(rack, w)]), f"{prop}: replayed volume of {rack}{w} differs from the tracked volume")


def check_flows(ctx, W, sim, prop="C01"):
    """(ii)/(iii): per (rack, position) the summed exact record volumes equal the summed requested volumes of
    the wells named that map to this position by the specification formula."""
    want, got = {}, {}
    dist = W.p["op"] == "distribute"
    for rack, wid, sign, v in W.named:
        g = W.geo[rack]
        key = (rack, "col", g.real_of(wid)) if (dist and rack == "S" and sign < 0) else (rack, g.encode(wid, W.dev))
        want[key] = want.get(key, 0) + sign * v
    nD = 0
    for st in sim.steps:
        kd = st[0]
        if kd == "R":
            key = ("S", "col", st[2]) if st[1] == "S" else (st[1], "col", st[2])
            ex = st[5] if st[5] is not None else st[4]
            got[key] = got.get(key, 0) - ex * st[6]
            continue
        kd, rack, w, pos, rounded, exact = st
        ex = exact if exact is not None else rounded
        key = (rack, pos)
        got[key] = got.get(key, 0) + (ex if kd == "D" else -ex)
    for key in sorted(set(want) | set(got), key=str):
        a, b = want.get(key, 0), got.get(key, 0)
        if ctx.symbolic:
            ctx.prove(ctx.eq(a, b), f"{prop}: net flow at {key} differs from the requested one")
        else:
            n = sum(1 for st in sim.steps if st[0] != "R" and (st[1], st[3]) == key) + sum(st[6] for st in sim.steps if st[0] == "R")
            ctx.prove(ctx.within(a, b, HALF_CENT * max(n, 1)), f"{prop}: net flow at {key} differs from the requested one")


def check_composition(ctx, W, sim, prop="C01"):
    tol = 0
    if not ctx.symbolic:
        # concrete replay: the records carry rounded volumes; if rounding lost anything the mixture can only be compared loosely
        exact = all(abs(float(sv) - float(W.labs[r]._volumes[w])) < 1e-9 for (r, w), sv in sim.vol.items())
        tol = 1e-6 if exact else 0.05
    for (rack, w), comp in sim.comp.items():
        lab = W.labs[rack]
        if comp is None:
            continue
        names = set(comp) | set(lab.composition or {})
        for n in sorted(names):
            tw = lab.composition[n][w] if n in (lab.composition or {}) else 0
            ctx.prove(ctx.within(sim.frac((rack, w), n), tw, tol), f"{prop}: composition of {rack}{w} ({n}) differs from the replayed mixture")
