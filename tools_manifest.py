"""Regenerates MANIFEST.json from the harness modules present (keeps not_applicable current)."""
import importlib
import json
import os
import sys

ROOT = os.path.dirname(os.path.abspath(__file__))
sys.path.insert(0, ROOT)
NA = {
    "C15": "well transforms (WellShifter/WellRotator/WellRandomizer) have no numeric or free-text quantity to make symbolic: plate shapes feed string slices and range(), wells are keys of real dicts built inside the constructors and the permutation comes from numpy's RandomState (C code); a symbolic key would be concretised by hashing, i.e. enumeration of concrete runs in which no SMT query decides anything (DESIGN.md section 7)",
}
TEXT = {}


def main():
    props = [json.loads(l) for l in open(os.path.join(ROOT, "properties.jsonl"))]
    checks, na = [], []
    for p in props:
        pid = p["id"]
        if os.path.exists(os.path.join(ROOT, "harness", f"{pid}.py")) and pid not in NA:
            H = importlib.import_module(f"harness.{pid}")
            checks.append(dict(
                property_id=pid,
                quick_cmd=f"./check {pid} --tier quick",
                thorough_cmd=f"./check {pid} --tier thorough",
                evidence_file=f"evidence/{pid}.json",
                replay_cmd_template=f"./check {pid} --replay {{path}}",
                engine="symex",
                level_claimed=dict(
                    category="other",
                    text=getattr(H, "LEVEL_TEXT", "Bounded symbolic execution of the real robotools code, SMT-decided: within the stated bounds every path "
                         "class of the encoded functions is explored and every obligation is proved valid (unsat of its negation) under the path "
                         "condition, or a counterexample is returned and replayed on the real code. This is a bounded claim (structural sizes are "
                         "unrolled), not a proof; bounds: ") + " " + H.BOUNDS["quick"],
                    design_ref=f"DESIGN.md section 6 ({pid})"),
                level_note="Trusted: z3; the proxy semantics (symex/core.py) and the pure-Python numpy stand-in (validated against the repo's 148 tests); "
                           "the independent oracle of this property. Outside the claim: " + getattr(H, "OUTSIDE", ""),
                technique=getattr(H, "TECHNIQUE", "bounded symbolic execution of the real Python code with z3-decided path conditions and obligations (solver-based checking)"),
            ))
        else:
            na.append(dict(property_id=pid, reason=NA.get(pid, "check not built yet (work in progress)")))
    m = dict(
        version=1,
        setup_cmd="python3-vt -c \"import z3,sys; sys.path.insert(0,'/repo'); import robotools; print('setup ok: z3', z3.get_version_string())\"",
        hooks=dict(guard="ROBOTOOLS_VERIF", enable="no hooks in /repo: all instrumentation is injected into robotools' module globals inside the check process (symex/install.py)",
                   baseline_off_cmd="cd /repo && /venv/bin/python -m pytest -ra -q -p no:cacheprovider --timeout=900 --continue-on-collection-errors",
                   source_commits=[], add_only=True),
        engines=[dict(name="symex", path="symex/", serves_properties=[c["property_id"] for c in checks],
                      kind_free_text="own symbolic-execution engine for Python: proxy values carrying z3 terms, DFS path exploration by re-execution, SMT-decided branches and obligations, replay of counterexamples on the real code")],
        checks=checks,
        notes="Exit codes of ./check: 0 property held on everything explored; 1 VIOLATION (replayed on the real code); 2 inconclusive (solver unknown / unsupported path / budget); 3 harness error. Known findings: known_findings.json.",
        not_applicable=na,
    )
    json.dump(m, open(os.path.join(ROOT, "MANIFEST.json"), "w"), indent=1)
    print("checks:", [c["property_id"] for c in checks], "n/a:", [n["property_id"] for n in na])


if __name__ == "__main__":
    main()
